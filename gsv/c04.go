package main

// C04 clean shutdown / reopen.  Shared with C05: the anchors of the state record and of
// the shutdown / corrupt tail marker (stAnchors), the open gate (openGate), the
// extraction of the state record layout from writeState / readState (recLayout).

import (
	"fmt"
	"go/ast"
	"go/constant"
	"go/token"
	"go/types"
	"sort"
	"strings"
)

func init() { register("C04", checkC04, "./db19/...") }

// ---------------------------------------------------------------- anchors

type stAnchors struct {
	shutdownC, corruptC, tailSizeC, stateLenC, magic1C, magic2C, magic2atC *types.Const
	smallOffLenC, cksumLenC                                                *types.Const
	readTail, readState, writeState, ReadState, dbClose, openDbStor        *types.Func
	storAlloc, storData, storClose, storSize                               *types.Func
	ckStop, isCorrupted, getState, updState, persist, dsWrite              *types.Func
	wso, rso, ckUpdate, ckMust, ckCheck                                    *types.Func
	modeF, storeF, ckF, metaF                                              *types.Var
	readC                                                                  *types.Const
}

func getStAnchors(c *Ctx, rule string) *stAnchors {
	p := c.P
	a := &stAnchors{
		shutdownC: p.ConstObj("db19", "shutdown"), corruptC: p.ConstObj("db19", "corrupt"), tailSizeC: p.ConstObj("db19", "tailSize"),
		stateLenC: p.ConstObj("db19", "stateLen"), magic1C: p.ConstObj("db19", "magic1"), magic2C: p.ConstObj("db19", "magic2"),
		magic2atC: p.ConstObj("db19", "magic2at"), smallOffLenC: p.ConstObj("db19/stor", "SmallOffsetLen"), cksumLenC: p.ConstObj("util/cksum", "Len"),
		readTail: p.DeclaredMethod("db19", "Database", "readTail"), readState: p.Func("db19", "readState"), writeState: p.Func("db19", "writeState"),
		ReadState: p.Func("db19", "ReadState"), dbClose: p.DeclaredMethod("db19", "Database", "close"), openDbStor: p.Func("db19", "OpenDbStor"),
		storAlloc: p.DeclaredMethod("db19/stor", "Stor", "Alloc"), storData: p.DeclaredMethod("db19/stor", "Stor", "Data"),
		storClose: p.DeclaredMethod("db19/stor", "Stor", "Close"), storSize: p.DeclaredMethod("db19/stor", "Stor", "Size"),
		ckStop: p.IfaceMethod("db19", "Checker", "Stop"), isCorrupted: p.DeclaredMethod("db19", "Database", "IsCorrupted"),
		getState: p.DeclaredMethod("db19", "Database", "GetState"), updState: p.DeclaredMethod("db19", "Database", "UpdateState"),
		persist: p.DeclaredMethod("db19", "Database", "persist"), dsWrite: p.DeclaredMethod("db19", "DbState", "Write"),
		wso: p.Func("db19/stor", "WriteSmallOffset"), rso: p.Func("db19/stor", "ReadSmallOffset"),
		ckUpdate: p.Func("util/cksum", "Update"), ckMust: p.Func("util/cksum", "MustCheck"), ckCheck: p.Func("util/cksum", "Check"),
		modeF: p.Field("db19", "Database", "mode"), storeF: p.Field("db19", "Database", "Store"), ckF: p.Field("db19", "Database", "ck"),
		metaF: p.Field("db19", "DbState", "Meta"), readC: p.ConstObj("db19/stor", "Read"),
	}
	ok := true
	for n, v := range map[string]any{"db19.shutdown": a.shutdownC, "db19.corrupt": a.corruptC, "db19.tailSize": a.tailSizeC, "db19.stateLen": a.stateLenC,
		"db19.magic1": a.magic1C, "db19.magic2": a.magic2C, "db19.magic2at": a.magic2atC, "stor.SmallOffsetLen": a.smallOffLenC, "cksum.Len": a.cksumLenC,
		"db19.Database.readTail": a.readTail, "db19.readState": a.readState, "db19.writeState": a.writeState, "db19.ReadState": a.ReadState,
		"db19.Database.close": a.dbClose, "db19.OpenDbStor": a.openDbStor, "stor.Stor.Alloc": a.storAlloc, "stor.Stor.Data": a.storData,
		"stor.Stor.Close": a.storClose, "stor.Stor.Size": a.storSize, "db19.Checker.Stop": a.ckStop, "db19.Database.IsCorrupted": a.isCorrupted,
		"db19.Database.GetState": a.getState, "db19.Database.UpdateState": a.updState, "db19.Database.persist": a.persist, "db19.DbState.Write": a.dsWrite,
		"stor.WriteSmallOffset": a.wso, "stor.ReadSmallOffset": a.rso, "cksum.Update": a.ckUpdate, "cksum.MustCheck": a.ckMust, "cksum.Check": a.ckCheck,
		"db19.Database.mode": a.modeF, "db19.Database.Store": a.storeF, "db19.Database.ck": a.ckF, "db19.DbState.Meta": a.metaF, "stor.Read": a.readC} {
		if !c.need(rule, n, v) {
			ok = false
		}
	}
	if !ok {
		return nil
	}
	return a
}

func constInt(c *types.Const) int64 {
	if c == nil {
		return -1
	}
	n, ok := constant.Int64Val(constant.ToInt(c.Val()))
	if !ok {
		return -1
	}
	return n
}

func constStr(c *types.Const) string {
	if c == nil || c.Val().Kind() != constant.String {
		return ""
	}
	return constant.StringVal(c.Val())
}

// isConstRef: e is (a conversion of) a reference to the constant obj, or a constant
// expression with the same string value.
func isConstRef(info *types.Info, e ast.Expr, obj *types.Const) bool {
	e = ast.Unparen(e)
	if call, ok := e.(*ast.CallExpr); ok && len(call.Args) == 1 {
		if tv, ok := info.Types[call.Fun]; ok && tv.IsType() {
			return isConstRef(info, call.Args[0], obj)
		}
	}
	if ObjOf(info, e) == types.Object(obj) {
		return true
	}
	if v := ConstVal(info, e); v != nil && v.Kind() == constant.String && obj.Val().Kind() == constant.String {
		return constant.StringVal(v) == constant.StringVal(obj.Val())
	}
	return false
}

// mentionsConst: e, following local definitions, refers to the constant.
func mentionsConst(fs *FuncSrc, defs *defIndex, e ast.Node, obj *types.Const) bool {
	return defs.Mentions(fs.Info(), e, func(n ast.Node) bool {
		x, ok := n.(ast.Expr)
		return ok && isConstRef(fs.Info(), x, obj)
	})
}

// markerWrite matches a write of the tail-marker constant: copy(buf, K) (buf from
// Stor.Alloc) or a Write/WriteAt/WriteString on an *os.File whose data is K.
func markerWrite(label string, a *stAnchors, k *types.Const, viaAlloc, viaFile bool) Ev {
	return Ev{label, func(fs *FuncSrc, n ast.Node) bool {
		call, ok := n.(*ast.CallExpr)
		if !ok {
			return false
		}
		info := fs.Info()
		if viaAlloc && IsBuiltin(info, call, "copy") && len(call.Args) == 2 && isConstRef(info, call.Args[1], k) {
			return true
		}
		if viaFile {
			if f := Callee(info, call); f != nil && isOsFileMethod(f) && (f.Name() == "Write" || f.Name() == "WriteAt" || f.Name() == "WriteString") &&
				len(call.Args) >= 1 && isConstRef(info, call.Args[0], k) {
				return true
			}
		}
		return false
	}}
}

func isOsFileMethod(f *types.Func) bool {
	sig, _ := f.Type().(*types.Signature)
	if sig == nil || sig.Recv() == nil {
		return false
	}
	t := sig.Recv().Type()
	if pt, ok := t.(*types.Pointer); ok {
		t = pt.Elem()
	}
	n, ok := t.(*types.Named)
	return ok && n.Obj().Pkg() != nil && n.Obj().Pkg().Path() == "os" && n.Obj().Name() == "File"
}

// ---------------------------------------------------------------- open gate (C04.3 / C05.1)

type gateResult struct {
	res          *Result
	fs           *FuncSrc
	defs         *defIndex
	readStateArg ast.Expr
}

// analyseOpenGate runs the path engine on OpenDbStor with the facts
// @tail==shutdown / @tail==corrupt (true edge of readTail() == K, also as switch case).
func analyseOpenGate(c *Ctx, rule string, a *stAnchors) *gateResult {
	p := c.P
	fs := c.src(rule, a.openDbStor, "db19.OpenDbStor")
	if fs == nil {
		return nil
	}
	defs := buildDefs(fs)
	evTail := CallOf("", a.readTail)
	deferRecover := Ev{"deferRecover", func(f *FuncSrc, n ast.Node) bool {
		d, ok := n.(*ast.DeferStmt)
		if !ok {
			return false
		}
		lit, ok := d.Call.Fun.(*ast.FuncLit)
		if !ok {
			return false
		}
		has := false
		ast.Inspect(lit.Body, func(m ast.Node) bool {
			if call, ok := m.(*ast.CallExpr); ok && IsBuiltin(f.Info(), call, "recover") {
				has = true
			}
			return true
		})
		return has
	}}
	fl := &Flow{P: p, Node: Labeler(CallOf("ReadState", a.ReadState), deferRecover),
		Edge: func(f *FuncSrc, cond ast.Expr, truth bool) []string {
			be, ok := cond.(*ast.BinaryExpr)
			if !ok || (be.Op != token.EQL && be.Op != token.NEQ) {
				return nil
			}
			eq := (be.Op == token.EQL) == truth
			for _, pr := range [][2]ast.Expr{{be.X, be.Y}, {be.Y, be.X}} {
				if !defs.MentionsEv(f, pr[0], evTail) {
					continue
				}
				for _, k := range []struct {
					c *types.Const
					n string
				}{{a.shutdownC, "shutdown"}, {a.corruptC, "corrupt"}} {
					if isConstRef(f.Info(), pr[1], k.c) {
						if eq {
							return []string{"@tail==" + k.n}
						}
						return []string{"@tail!=" + k.n}
					}
				}
			}
			return nil
		}}
	g := &gateResult{res: fl.Analyze(fs), fs: fs, defs: defs}
	for _, s := range g.res.Of("ReadState") {
		if call, ok := s.Node.(*ast.CallExpr); ok && len(call.Args) == 2 {
			g.readStateArg = call.Args[1]
		}
	}
	return g
}

// evalWithDefs evaluates e with go/constant values, resolving locals that have exactly
// one definition, and leaves through atom.
func evalWithDefs(fs *FuncSrc, defs *defIndex, e ast.Expr, atom func(ast.Expr) (constant.Value, bool)) constant.Value {
	info := fs.Info()
	seen := map[types.Object]bool{}
	var env *AbsEnv
	env = &AbsEnv{Info: info, Atom: func(x ast.Expr) (constant.Value, bool) {
		if v, ok := atom(x); ok {
			return v, true
		}
		if id, ok := x.(*ast.Ident); ok {
			if o, isVar := info.Uses[id].(*types.Var); isVar && !o.IsField() && len(defs.defs[o]) == 1 && !seen[o] {
				seen[o] = true
				v := env.expr(defs.defs[o][0])
				delete(seen, o)
				return v, true
			}
		}
		return nil, false
	}}
	return env.expr(e)
}

// ---------------------------------------------------------------- state record layout

type recField struct {
	off, width int64
	kind       string // "const <name>", "binary.<order>.u64", "smalloffset", "cksum over [lo,hi)"
	role       string // writer: "param N" ; reader: "result N" ; "" when not a carried value
	pos        token.Pos
}

func (f recField) String() string { return fmt.Sprintf("[%d,%d) %s", f.off, f.off+f.width, f.kind) }

type recLayout struct {
	fs     *FuncSrc
	fields []recField
	bad    []string  // accesses of the record that could not be classified
	bufLen int64     // constant length the buffer was allocated / resliced with (-1 unknown)
	bufPos token.Pos // where
}

type layoutX struct {
	p      *Prog
	a      *stAnchors
	out    *recLayout
	consts []*types.Const // named constants a constant field may be (magic1, magic2)
	soLen  int64          // width of a small offset as accessed by Write/ReadSmallOffset
}

// smallOffsetWidth: 1 + the largest constant index used on the []byte parameter.
func smallOffsetWidth(p *Prog, f *types.Func) int64 {
	fs := p.Src(f)
	if fs == nil {
		return -1
	}
	prm := fs.Param(0)
	w := int64(-1)
	ForEachNode(fs, func(n ast.Node) {
		ix, ok := n.(*ast.IndexExpr)
		if !ok {
			return
		}
		id, ok := ast.Unparen(ix.X).(*ast.Ident)
		if !ok || fs.Info().Uses[id] != types.Object(prm) {
			return
		}
		if v := ConstVal(fs.Info(), ix.Index); v != nil {
			if k, ok := constant.Int64Val(constant.ToInt(v)); ok && k+1 > w {
				w = k + 1
			}
		}
	})
	return w
}

type region struct {
	lo, hi int64 // hi == -1: open
}

// extractLayout walks the statements of fs (writeState or readState) in order, keeping
// constant values of integer locals, and classifies every access to the record buffer.
func extractLayout(p *Prog, a *stAnchors, fs *FuncSrc, writer bool) *recLayout {
	x := &layoutX{p: p, a: a, out: &recLayout{fs: fs, bufLen: -1}, consts: []*types.Const{a.magic1C, a.magic2C}}
	x.soLen = smallOffsetWidth(p, a.wso)
	if !writer {
		x.soLen = smallOffsetWidth(p, a.rso)
	}
	env := map[types.Object]constant.Value{}
	bufs := map[types.Object]int64{}
	x.stmts(fs, fs.Body.List, env, bufs, writer, 1)
	sort.SliceStable(x.out.fields, func(i, j int) bool { return x.out.fields[i].off < x.out.fields[j].off })
	return x.out
}

func (x *layoutX) eval(fs *FuncSrc, env map[types.Object]constant.Value, e ast.Expr) (int64, bool) {
	if e == nil {
		return 0, true
	}
	ae := &AbsEnv{Info: fs.Info(), Locals: env}
	v := ae.expr(e)
	if v == nil {
		return 0, false
	}
	n, ok := constant.Int64Val(constant.ToInt(v))
	return n, ok
}

// regionOf: e is buf, or buf[lo:hi] for a buffer alias.
func (x *layoutX) regionOf(fs *FuncSrc, env map[types.Object]constant.Value, bufs map[types.Object]int64, e ast.Expr) (region, bool, string) {
	e = ast.Unparen(e)
	switch v := e.(type) {
	case *ast.Ident:
		if base, ok := bufs[fs.Info().Uses[v]]; ok {
			return region{base, -1}, true, ""
		}
	case *ast.SliceExpr:
		id, ok := ast.Unparen(v.X).(*ast.Ident)
		if !ok {
			return region{}, false, ""
		}
		base, ok := bufs[fs.Info().Uses[id]]
		if !ok {
			return region{}, false, ""
		}
		lo, okl := x.eval(fs, env, v.Low)
		if !okl {
			return region{}, true, "lower bound " + exprStr(v.Low) + " is not a constant at this point"
		}
		r := region{base + lo, -1}
		if v.High != nil {
			hi, okh := x.eval(fs, env, v.High)
			if !okh {
				return region{}, true, "upper bound " + exprStr(v.High) + " is not a constant at this point"
			}
			r.hi = base + hi
		}
		return r, true, ""
	}
	return region{}, false, ""
}

func (x *layoutX) constKind(fs *FuncSrc, e ast.Expr) (string, int64, bool) {
	v := ConstVal(fs.Info(), e)
	if call, ok := ast.Unparen(e).(*ast.CallExpr); ok && v == nil && len(call.Args) == 1 {
		if tv, ok := fs.Info().Types[call.Fun]; ok && tv.IsType() {
			v = ConstVal(fs.Info(), call.Args[0])
		}
	}
	if v == nil || v.Kind() != constant.String {
		return "", 0, false
	}
	s := constant.StringVal(v)
	for _, k := range x.consts {
		if constStr(k) == s {
			return "const " + k.Name(), int64(len(s)), true
		}
	}
	return fmt.Sprintf("const %x", s), int64(len(s)), true
}

func (x *layoutX) add(f recField) { x.out.fields = append(x.out.fields, f) }
func (x *layoutX) badf(fs *FuncSrc, n ast.Node, format string, args ...any) {
	x.out.bad = append(x.out.bad, x.p.Pos(n)+": "+fmt.Sprintf(format, args...))
}

// roleOfExpr: writer — which parameter the stored value is; reader — which result the
// loaded value becomes (named result, or position in a return statement).
func paramIndex(fs *FuncSrc, e ast.Expr) int {
	id, ok := ast.Unparen(e).(*ast.Ident)
	if !ok || fs.Outer().Obj == nil {
		return -1
	}
	o := fs.Info().Uses[id]
	ps := fs.Outer().Obj.Type().(*types.Signature).Params()
	for i := 0; i < ps.Len(); i++ {
		if types.Object(ps.At(i)) == o {
			return i
		}
	}
	return -1
}

func resultIndex(fs *FuncSrc, o types.Object) int {
	if o == nil || fs.Outer().Obj == nil {
		return -1
	}
	rs := fs.Outer().Obj.Type().(*types.Signature).Results()
	for i := 0; i < rs.Len(); i++ {
		if types.Object(rs.At(i)) == o {
			return i
		}
	}
	idx := -1
	ForEachNode(fs, func(n ast.Node) {
		if r, ok := n.(*ast.ReturnStmt); ok {
			for i, e := range r.Results {
				if id, ok := ast.Unparen(e).(*ast.Ident); ok && fs.Info().Uses[id] == o {
					idx = i
				}
			}
		}
	})
	return idx
}

// scan classifies the buffer accesses inside node n (an expression or simple statement).
// assignedTo: for `v = f(buf[..])` the object v (reader role).
func (x *layoutX) scan(fs *FuncSrc, n ast.Node, env map[types.Object]constant.Value, bufs map[types.Object]int64, writer bool, depth int, assignedTo types.Object) {
	if n == nil {
		return
	}
	info := fs.Info()
	var visit func(n ast.Node) bool
	visit = func(n ast.Node) bool {
		switch v := n.(type) {
		case *ast.FuncLit:
			return false
		case *ast.CallExpr:
			if IsBuiltin(info, v, "len") || IsBuiltin(info, v, "cap") {
				return false
			}
			if IsBuiltin(info, v, "copy") && len(v.Args) == 2 {
				if r, isBuf, why := x.regionOf(fs, env, bufs, v.Args[0]); isBuf {
					if why != "" {
						x.badf(fs, v, "%s", why)
						return false
					}
					if k, w, ok := x.constKind(fs, v.Args[1]); ok {
						x.add(recField{off: r.lo, width: w, kind: k, pos: v.Pos()})
					} else {
						x.badf(fs, v, "copy of a non-constant into the record")
					}
					ast.Inspect(v.Args[1], visit)
					return false
				}
			}
			callee := Callee(info, v)
			if callee != nil && len(v.Args) >= 1 {
				if r, isBuf, why := x.regionOf(fs, env, bufs, v.Args[0]); isBuf {
					if why != "" {
						x.badf(fs, v, "%s", why)
						return false
					}
					switch {
					case sameFunc(callee, x.a.wso) || sameFunc(callee, x.a.rso):
						role := ""
						if sameFunc(callee, x.a.wso) && len(v.Args) == 2 {
							if i := paramIndex(fs, v.Args[1]); i >= 0 {
								role = fmt.Sprintf("param %d", i)
							}
						} else if assignedTo != nil {
							if i := resultIndex(fs, assignedTo); i >= 0 {
								role = fmt.Sprintf("result %d", i)
							}
						}
						x.add(recField{off: r.lo, width: x.soLen, kind: "smalloffset", role: role, pos: v.Pos()})
					case callee.Pkg() != nil && callee.Pkg().Path() == "encoding/binary" && strings.HasSuffix(callee.Name(), "Uint64"):
						order := "?"
						if sel, ok := ast.Unparen(v.Fun).(*ast.SelectorExpr); ok {
							if o := ObjOf(info, sel.X); o != nil {
								order = o.Name()
							}
						}
						x.add(recField{off: r.lo, width: 8, kind: "binary." + order + ".u64", pos: v.Pos()})
					case sameFunc(callee, x.a.ckUpdate) || sameFunc(callee, x.a.ckMust) || sameFunc(callee, x.a.ckCheck):
						if r.hi < 0 {
							x.badf(fs, v, "checksum over an open-ended slice of the record")
						} else {
							cl := constInt(x.a.cksumLenC)
							x.add(recField{off: r.hi - cl, width: cl, kind: fmt.Sprintf("cksum over [%d,%d)", r.lo, r.hi), pos: v.Pos()})
						}
					default:
						// a helper of this module taking the slice: one level
						cs := x.p.Src(callee)
						if cs != nil && cs.Body != nil && depth > 0 && cs.Param(0) != nil {
							nb := map[types.Object]int64{types.Object(cs.Param(0)): r.lo}
							x.stmts(cs, cs.Body.List, map[types.Object]constant.Value{}, nb, writer, depth-1)
						} else {
							x.badf(fs, v, "the record is passed to %s, whose layout effect is unknown", funcName(callee))
						}
					}
					for _, arg := range v.Args[1:] {
						ast.Inspect(arg, visit)
					}
					return false
				}
			}
		case *ast.BinaryExpr:
			if v.Op == token.EQL || v.Op == token.NEQ {
				for _, pr := range [][2]ast.Expr{{v.X, v.Y}, {v.Y, v.X}} {
					conv, ok := ast.Unparen(pr[0]).(*ast.CallExpr)
					if !ok || len(conv.Args) != 1 {
						continue
					}
					if tv, ok := info.Types[conv.Fun]; !ok || !tv.IsType() {
						continue
					}
					r, isBuf, why := x.regionOf(fs, env, bufs, conv.Args[0])
					if !isBuf {
						continue
					}
					if why != "" {
						x.badf(fs, v, "%s", why)
						return false
					}
					k, w, ok := x.constKind(fs, pr[1])
					if !ok {
						x.badf(fs, v, "record bytes compared with a non-constant")
						return false
					}
					if r.hi >= 0 && r.hi-r.lo != w {
						x.badf(fs, v, "compares %d record bytes with a %d byte constant", r.hi-r.lo, w)
					}
					x.add(recField{off: r.lo, width: w, kind: k, pos: v.Pos()})
					return false
				}
			}
		case *ast.Ident:
			if _, ok := bufs[info.Uses[v]]; ok {
				x.badf(fs, v, "unclassified access to the record buffer")
			}
		}
		return true
	}
	ast.Inspect(n, visit)
}

func (x *layoutX) stmts(fs *FuncSrc, list []ast.Stmt, env map[types.Object]constant.Value, bufs map[types.Object]int64, writer bool, depth int) {
	for _, s := range list {
		x.stmt(fs, s, env, bufs, writer, depth)
	}
}

func cloneEnv(m map[types.Object]constant.Value) map[types.Object]constant.Value {
	r := make(map[types.Object]constant.Value, len(m))
	for k, v := range m {
		r[k] = v
	}
	return r
}

// assignedIn lists the integer locals assigned anywhere inside n.
func assignedIn(info *types.Info, n ast.Node) []types.Object {
	var out []types.Object
	ast.Inspect(n, func(m ast.Node) bool {
		switch s := m.(type) {
		case *ast.AssignStmt:
			for _, l := range s.Lhs {
				if id, ok := l.(*ast.Ident); ok {
					if o := info.Uses[id]; o != nil {
						out = append(out, o)
					}
				}
			}
		case *ast.IncDecStmt:
			if id, ok := s.X.(*ast.Ident); ok {
				if o := info.Uses[id]; o != nil {
					out = append(out, o)
				}
			}
		}
		return true
	})
	return out
}

func (x *layoutX) stmt(fs *FuncSrc, s ast.Stmt, env map[types.Object]constant.Value, bufs map[types.Object]int64, writer bool, depth int) {
	info := fs.Info()
	switch s := s.(type) {
	case *ast.AssignStmt:
		// the buffer definition: _, buf := store.Alloc(N)  /  buf := st.Data(off)[:N]  /  buf = buf[:N]
		if len(s.Rhs) == 1 {
			if call, ok := ast.Unparen(s.Rhs[0]).(*ast.CallExpr); ok && sameFunc(Callee(info, call), x.a.storAlloc) && len(s.Lhs) == 2 {
				if id, ok := s.Lhs[1].(*ast.Ident); ok {
					if o := objOfIdent(info, id); o != nil {
						bufs[o] = 0
						if n, ok := x.eval(fs, env, callArg(call, 0)); ok {
							x.out.bufLen, x.out.bufPos = n, call.Pos()
						}
					}
				}
				return
			}
			if len(s.Lhs) == 1 {
				if id, ok := s.Lhs[0].(*ast.Ident); ok {
					rhs := ast.Unparen(s.Rhs[0])
					inner := rhs
					var high ast.Expr
					if se, ok := rhs.(*ast.SliceExpr); ok && se.Low == nil {
						inner, high = ast.Unparen(se.X), se.High
					}
					isData := false
					if call, ok := inner.(*ast.CallExpr); ok && sameFunc(Callee(info, call), x.a.storData) {
						isData = true
					}
					if iid, ok := inner.(*ast.Ident); ok {
						if _, isBuf := bufs[info.Uses[iid]]; isBuf && info.Uses[iid] == objOfIdent(info, id) {
							isData = true // buf = buf[:N]
						}
					}
					if isData {
						if o := objOfIdent(info, id); o != nil {
							if _, known := bufs[o]; !known {
								bufs[o] = 0
							}
							if high != nil {
								if n, ok := x.eval(fs, env, high); ok {
									x.out.bufLen, x.out.bufPos = n, s.Pos()
								}
							}
						}
						return
					}
					// alias: b2 := buf[k:]
					if r, isBuf, why := x.regionOf(fs, env, bufs, rhs); isBuf && why == "" && r.hi < 0 {
						if o := objOfIdent(info, id); o != nil {
							bufs[o] = r.lo
							return
						}
					}
				}
			}
		}
		var target types.Object
		if len(s.Lhs) == 1 {
			if id, ok := s.Lhs[0].(*ast.Ident); ok {
				target = objOfIdent(info, id)
			}
		}
		for _, r := range s.Rhs {
			x.scan(fs, r, env, bufs, writer, depth, target)
		}
		for _, l := range s.Lhs {
			if _, ok := l.(*ast.Ident); !ok {
				x.scan(fs, l, env, bufs, writer, depth, nil)
			}
		}
		// effect on integer locals
		if len(s.Lhs) == len(s.Rhs) {
			ae := &AbsEnv{Info: info, Locals: env}
			vals := make([]constant.Value, len(s.Rhs))
			for i, r := range s.Rhs {
				vals[i] = ae.expr(r)
			}
			for i, l := range s.Lhs {
				id, ok := l.(*ast.Ident)
				if !ok {
					continue
				}
				o := objOfIdent(info, id)
				if o == nil {
					continue
				}
				switch s.Tok {
				case token.DEFINE, token.ASSIGN:
					env[o] = vals[i]
				case token.ADD_ASSIGN, token.SUB_ASSIGN:
					cur, has := env[o]
					if !has || cur == nil || vals[i] == nil {
						env[o] = nil
					} else if s.Tok == token.ADD_ASSIGN {
						env[o] = constant.BinaryOp(cur, token.ADD, vals[i])
					} else {
						env[o] = constant.BinaryOp(cur, token.SUB, vals[i])
					}
				default:
					env[o] = nil
				}
			}
		} else {
			for _, l := range s.Lhs {
				if id, ok := l.(*ast.Ident); ok {
					if o := objOfIdent(info, id); o != nil {
						env[o] = nil
					}
				}
			}
		}
	case *ast.IncDecStmt:
		if id, ok := s.X.(*ast.Ident); ok {
			if o := info.Uses[id]; o != nil {
				if cur := env[o]; cur != nil {
					op := token.ADD
					if s.Tok == token.DEC {
						op = token.SUB
					}
					env[o] = constant.BinaryOp(cur, op, constant.MakeInt64(1))
				}
			}
		}
	case *ast.DeclStmt:
		if gd, ok := s.Decl.(*ast.GenDecl); ok {
			for _, sp := range gd.Specs {
				if vs, ok := sp.(*ast.ValueSpec); ok {
					ae := &AbsEnv{Info: info, Locals: env}
					for i, nm := range vs.Names {
						if i < len(vs.Values) {
							x.scan(fs, vs.Values[i], env, bufs, writer, depth, info.Defs[nm])
							env[info.Defs[nm]] = ae.expr(vs.Values[i])
						}
					}
				}
			}
		}
	case *ast.BlockStmt:
		x.stmts(fs, s.List, env, bufs, writer, depth)
	case *ast.IfStmt:
		if s.Init != nil {
			x.stmt(fs, s.Init, env, bufs, writer, depth)
		}
		x.scan(fs, s.Cond, env, bufs, writer, depth, nil)
		x.stmts(fs, s.Body.List, cloneEnv(env), bufs, writer, depth)
		if s.Else != nil {
			x.stmt(fs, s.Else, cloneEnv(env), bufs, writer, depth)
		}
		for _, o := range assignedIn(info, s.Body) {
			env[o] = nil
		}
		if s.Else != nil {
			for _, o := range assignedIn(info, s.Else) {
				env[o] = nil
			}
		}
	case *ast.ReturnStmt, *ast.ExprStmt:
		x.scan(fs, s, env, bufs, writer, depth, nil)
	case *ast.EmptyStmt:
	default:
		// loops, switches, ...: every local assigned inside is unknown; accesses are
		// classified with that environment
		e2 := cloneEnv(env)
		for _, o := range assignedIn(info, s) {
			e2[o] = nil
			env[o] = nil
		}
		x.scan(fs, s, e2, bufs, writer, depth, nil)
	}
}

func objOfIdent(info *types.Info, id *ast.Ident) types.Object {
	if o := info.Defs[id]; o != nil {
		return o
	}
	return info.Uses[id]
}

// tupleSource: the variable o is defined by `.., o, .. := call(...)`: returns the call and
// the position of o on the left-hand side; for `o := call()` position 0.
func tupleSource(fs *FuncSrc, o types.Object) (*ast.CallExpr, int) {
	var rc *ast.CallExpr
	ri := -1
	n := 0
	info := fs.Info()
	ForEachNode(fs.Outer(), func(nd ast.Node) {
		as, ok := nd.(*ast.AssignStmt)
		if !ok || len(as.Rhs) != 1 {
			return
		}
		for i, l := range as.Lhs {
			id, ok := l.(*ast.Ident)
			if !ok || objOfIdent(info, id) != o {
				continue
			}
			n++
			if call, ok := ast.Unparen(as.Rhs[0]).(*ast.CallExpr); ok {
				rc, ri = call, i
			} else {
				rc, ri = nil, -1
			}
		}
	})
	if n != 1 {
		return nil, -1
	}
	return rc, ri
}

// ---------------------------------------------------------------- the check

func checkC04(c *Ctx) string {
	p := c.P
	a := getStAnchors(c, "C04.0 anchors")
	if a == nil {
		return "anchors missing"
	}
	checkC04Close(c, a)
	checkC04Merger(c, a)

	// ---- 3. reopen gate
	r3 := "C04.3 K4c+K1 reopen reads the state only behind the shutdown marker, at size - tailSize - stateLen"
	if g := analyseOpenGate(c, r3, a); g != nil {
		c.RequireBefore(r3, g.res, "ReadState", 1, "@tail==shutdown")
		nret := 0
		for _, r := range g.res.Returns {
			if r.Fn != g.fs || r.Before.Has("@tail==shutdown") {
				continue
			}
			nret++
			ok := len(r.Node.Results) == 2 && !isNilIdent(g.fs.Info(), r.Node.Results[1]) && isNilIdent(g.fs.Info(), r.Node.Results[0])
			c.Obl(r3, "OpenDbStor: a return not behind the shutdown marker returns (nil, error)", p.Pos(r.Node), ok,
				"OpenDbStor can return a database (or no error) on a path where the tail of the file was not compared equal to the shutdown marker: a file that was not closed cleanly is opened as if it were")
		}
		c.Floor(r3, nret, 2, "refusing returns of OpenDbStor")
		if g.readStateArg != nil {
			const N = int64(1) << 40
			v := evalWithDefs(g.fs, g.defs, g.readStateArg, func(e ast.Expr) (constant.Value, bool) {
				if call, ok := e.(*ast.CallExpr); ok && sameFunc(Callee(g.fs.Info(), call), a.storSize) {
					return constant.MakeInt64(N), true
				}
				return nil, false
			})
			want := N - constInt(a.tailSizeC) - constInt(a.stateLenC)
			got, ok := int64(0), false
			if v != nil {
				got, ok = constant.Int64Val(constant.ToInt(v))
			}
			d := fmt.Sprintf("offset passed to ReadState evaluates to Size()%+d, the last state record of a cleanly closed file starts at Size()%+d", got-N, want-N)
			if !ok {
				d = "offset passed to ReadState is not Size() plus a constant on every path (more than one definition reaches it)"
			}
			c.Obl(r3, "OpenDbStor: the state is read at Size() - tailSize - stateLen", p.Pos(g.readStateArg), ok && got == want, d)
		}
	}
	// readTail reads tailSize bytes at Size() - tailSize
	if fs := c.src(r3, a.readTail, "db19.Database.readTail"); fs != nil {
		defs := buildDefs(fs)
		n := 0
		for _, call := range p.CallsIn(fs, a.storData) {
			n++
			const N = int64(1) << 40
			v := evalWithDefs(fs, defs, callArg(call, 0), func(e ast.Expr) (constant.Value, bool) {
				if cl, ok := e.(*ast.CallExpr); ok && sameFunc(Callee(fs.Info(), cl), a.storSize) {
					return constant.MakeInt64(N), true
				}
				return nil, false
			})
			got, ok := int64(0), false
			if v != nil {
				got, ok = constant.Int64Val(constant.ToInt(v))
			}
			c.Obl(r3, "readTail looks at the last tailSize bytes", p.Pos(call), ok && got == N-constInt(a.tailSizeC),
				"readTail does not read at Size() - tailSize: the marker written by close is not what open looks at")
		}
		c.Floor(r3, n, 1, "Stor.Data calls in readTail")
	}
	c.Obl(r3, "tailSize == len(shutdown) == len(corrupt), markers differ", "", constInt(a.tailSizeC) == int64(len(constStr(a.shutdownC))) &&
		len(constStr(a.shutdownC)) == len(constStr(a.corruptC)) && constStr(a.shutdownC) != constStr(a.corruptC) && constInt(a.tailSizeC) > 0,
		fmt.Sprintf("tailSize=%d len(shutdown)=%d len(corrupt)=%d", constInt(a.tailSizeC), len(constStr(a.shutdownC)), len(constStr(a.corruptC))))

	// ---- 4. layout agreement
	checkC04Layout(c, a)

	// ---- 5. the final persist writes the state after applying the saved index roots
	r5 := "C04.5 K4 persist writes the state record inside UpdateState, after the persisted index roots are applied"
	if fs := c.src(r5, a.persist, "db19.Database.persist"); fs != nil {
		apply := p.Func("db19/meta", "Apply")
		if c.need(r5, "meta.Apply", apply) {
			fl := &Flow{P: p, Callback: db19Callbacks(p), Node: Labeler(CallOf("Apply", apply), StoreTo("Meta=", false, a.metaF), CallOf("Write", a.dsWrite))}
			res := fl.Analyze(fs)
			c.RequireBefore(r5, res, "Write", 1, "Apply")
			c.RequireBefore(r5, res, "Write", 1, "Meta=")
			par := parentMap(fs.Body)
			for _, s := range res.Of("Write") {
				inCb := false
				for n := par[s.Node]; n != nil; n = par[n] {
					if lit, ok := n.(*ast.FuncLit); ok {
						if call, ok := par[lit].(*ast.CallExpr); ok && sameFunc(Callee(fs.Info(), call), a.updState) {
							inCb = true
						}
					}
				}
				c.Obl(r5, "persist: DbState.Write runs inside the UpdateState callback", p.Pos(s.Node), inCb,
					"Write updates the metadata chains' offsets; outside UpdateState the written offsets are lost or race with commits, the next persist/open reads stale chains")
			}
		}
	}
	// DbState.Write: metadata first, then the state record that points to it
	if fs := c.src(r5, a.dsWrite, "db19.DbState.Write"); fs != nil {
		metaWrite := p.DeclaredMethod("db19/meta", "Meta", "Write")
		if c.need(r5, "meta.Meta.Write", metaWrite) {
			fl := &Flow{P: p, Node: Labeler(CallOf("Meta.Write", metaWrite), CallOf("writeState", a.writeState))}
			res := fl.Analyze(fs)
			c.RequireBefore(r5+" (metadata before the record that points to it)", res, "writeState", 1, "Meta.Write")
		}
	}
	checkRenameCoversNameFields(c, "C04.6 K18 a column rename rewrites every persisted column-name field of every index")
	return "Static shape of clean shutdown and reopen: Database.close stops the checker (or has none) before it writes the shutdown marker — tailSize bytes from Stor.Alloc, only when mode != Read and not corrupted — and closes the store after both; " +
		"the merger's last action before close(allDone) is the guarded final persist, CheckCo.Stop sends the stop message and then waits on the same channel, the checker closes the merge channel on the stop message; " +
		"OpenDbStor reaches ReadState only on the readTail()==shutdown edge with offset Size()-tailSize-stateLen and returns (nil, err) elsewhere; " +
		"the (offset, width, kind) lists extracted from writeState and readState with constant propagation agree, tile [0,stateLen), the checksum covers the same bytes, magic2at+len(magic2)==stateLen, " +
		"and the schema/info chain offsets travel Meta.Write→writeState and readState→ReadMeta in the same positions at all four readers; persist applies the saved index roots before DbState.Write inside UpdateState. " +
		"Not decided: contents of the metadata chains (hamt flattening), that every commit reaches the merger before Stop (C16/C17), file system durability."
}

func checkC04Close(c *Ctx, a *stAnchors) {
	p := c.P
	r1 := "C04.1 K4+K4c close: stop the checker, then the shutdown marker, then close the store"
	fs := c.src(r1, a.dbClose, "db19.Database.close")
	if fs == nil {
		return
	}
	fl := &Flow{P: p, Depth: 1, Node: Labeler(CallOf("Stop", a.ckStop), markerWrite("marker", a, a.shutdownC, true, true), CallOf("Store.Close", a.storClose)),
		Implies: map[string][]string{"Stop": {"stopped|nochecker"}, "@ck==nil": {"stopped|nochecker"}},
		Edge: func(f *FuncSrc, cond ast.Expr, truth bool) []string {
			if call, ok := cond.(*ast.CallExpr); ok && sameFunc(Callee(f.Info(), call), a.isCorrupted) {
				if truth {
					return []string{"@corrupted"}
				}
				return []string{"@!corrupted"}
			}
			be, ok := cond.(*ast.BinaryExpr)
			if !ok || (be.Op != token.EQL && be.Op != token.NEQ) {
				return nil
			}
			eq := (be.Op == token.EQL) == truth
			for _, pr := range [][2]ast.Expr{{be.X, be.Y}, {be.Y, be.X}} {
				if FieldOf(f.Info(), pr[0]) == a.ckF && isNilIdent(f.Info(), pr[1]) {
					if eq {
						return []string{"@ck==nil"}
					}
					return []string{"@ck!=nil"}
				}
				if FieldOf(f.Info(), pr[0]) == a.modeF && ObjOf(f.Info(), pr[1]) == types.Object(a.readC) {
					if eq {
						return []string{"@mode==Read"}
					}
					return []string{"@mode!=Read"}
				}
			}
			return nil
		}}
	res := fl.Analyze(fs)
	for _, s := range res.Of("Stop") {
		c.Obl(r1, "close: the checker is stopped before the store is closed, and the store is closed afterwards", p.Pos(s.Node), !s.Before.Has("Store.Close") && s.Follows("Store.Close"),
			"Checker.Stop (which waits for the final persist) does not precede Store.Close on every path")
		c.Obl(r1, "close: the checker is stopped before the marker is written", p.Pos(s.Node), !s.Before.Has("marker"),
			"the shutdown marker is written before the final persist: the state record is no longer the last thing before the marker and reopen reads garbage")
	}
	c.Floor(r1, len(res.Of("Stop")), 1, "Checker.Stop calls in Database.close")
	for _, s := range res.Of("marker") {
		c.Obl(r1, "close: marker written only after the checker stopped (or there is none)", p.Pos(s.Node), s.Before.Has("stopped|nochecker"),
			"the shutdown marker is written on a path where a running checker was not stopped first (the final state would follow the marker)")
		c.Obl(r1, "close: marker written only when the file is writable (mode != Read)", p.Pos(s.Node), s.Before.Has("@mode!=Read"),
			"the marker write is not guarded by mode != Read: a read-only mapping is written (fault) on every close of -check/-dump")
		c.Obl(r1, "close: marker not written over a corrupt database", p.Pos(s.Node), s.Before.Has("@!corrupted"),
			"the shutdown marker is appended although corruption was detected: the next open accepts the file")
		c.Obl(r1, "close: the store is closed after the marker is written", p.Pos(s.Node), !s.Before.Has("Store.Close") && s.Follows("Store.Close"),
			"the marker is written after (or without) Store.Close: it never reaches the file")
	}
	c.Floor(r1, len(res.Of("marker")), 1, "writes of the shutdown marker in Database.close")
	c.Floor(r1, len(res.Of("Store.Close")), 1, "Store.Close calls in Database.close")
	if !res.Exit.top {
		// every normal exit either closed the store or was the "already closed" early return
		for _, r := range res.Returns {
			if r.Fn == fs && !r.Before.Has("Store.Close") {
				// only allowed on the closed.Swap(true) == true edge: recognised as a return before any of the events
				c.Obl(r1, "close: an early return happens before anything else (already closed)", p.Pos(r.Node), !r.Before.HasAny("Stop", "marker", "stopped|nochecker"),
					"close returns without closing the store after it started shutting down")
			}
		}
	}
	// writers of the shutdown marker in db19 (K2): close and the repair paths only
	allowed := []string{"db19.(*Database).close", "db19.(*repair).fixHead", "db19.(*repair).copySize"}
	c.WritersVia("C04.1 K2 the shutdown marker is written only by close and by repair", "shutdown marker", []string{"db19"}, markerWrite("", a, a.shutdownC, true, true), allowed, 3)
	// the destination of an in-memory marker write: len(shutdown) bytes from Stor.Alloc
	for wf, nodes := range p.FuncsWith([]string{"db19"}, markerWrite("", a, a.shutdownC, true, false)) {
		wdefs := buildDefs(wf)
		for _, nd := range nodes {
			call := nd.(*ast.CallExpr)
			okDst := false
			if id := identOf(call.Args[0]); id != nil {
				if ac, idx := tupleSource(wf, wf.Info().Uses[id]); ac != nil && idx == 1 && sameFunc(Callee(wf.Info(), ac), a.storAlloc) {
					if v := evalWithDefs(wf, wdefs, callArg(ac, 0), func(ast.Expr) (constant.Value, bool) { return nil, false }); v != nil {
						n, _ := constant.Int64Val(constant.ToInt(v))
						okDst = n == int64(len(constStr(a.shutdownC)))
					}
				}
			}
			c.Obl(r1, wf.name+": the marker is appended with Stor.Alloc(len(shutdown))", p.Pos(nd), okDst,
				"the marker is not copied into exactly len(shutdown) freshly allocated bytes at the end of the store: readTail (last tailSize bytes) would not see it")
		}
	}
}

func checkC04Merger(c *Ctx, a *stAnchors) {
	p := c.P
	r2 := "C04.2 K4 the final persist precedes the all-done signal that Stop waits for"
	merger := c.function(r2, "db19", "merger")
	startConcur := c.function(r2, "db19", "StartConcur")
	startCheckCo := c.function(r2, "db19", "StartCheckCo")
	stop := c.method(r2, "db19", "CheckCo", "Stop")
	checker := c.function(r2, "db19", "checker")
	allDoneF := p.Field("db19", "CheckCo", "allDone")
	pqPut := p.DeclaredMethod("util/queue", "PriorityQueue", "Put")
	stopPri := p.ConstObj("db19", "stopPriority")
	if merger == nil || startConcur == nil || startCheckCo == nil || stop == nil || checker == nil ||
		!c.need(r2, "db19.CheckCo.allDone", allDoneF) || !c.need(r2, "queue.PriorityQueue.Put", pqPut) || !c.need(r2, "db19.stopPriority", stopPri) {
		return
	}
	// which parameter of merger is the all-done channel: the one StartConcur also hands to
	// StartCheckCo, which stores it in CheckCo.allDone
	mergerParam, ccParam := -1, -1
	{
		info := startConcur.Info()
		var goCall, ccCall *ast.CallExpr
		ForEachNode(startConcur, func(n ast.Node) {
			switch v := n.(type) {
			case *ast.GoStmt:
				if sameFunc(Callee(info, v.Call), merger.Obj) {
					goCall = v.Call
				}
			case *ast.CallExpr:
				if sameFunc(Callee(info, v), startCheckCo.Obj) {
					ccCall = v
				}
			}
		})
		// parameter of StartCheckCo stored to CheckCo.allDone
		ForEachNode(startCheckCo, func(n ast.Node) {
			kv, ok := n.(*ast.KeyValueExpr)
			if !ok {
				return
			}
			if id, ok := kv.Key.(*ast.Ident); ok && startCheckCo.Info().Uses[id] == types.Object(allDoneF) {
				ccParam = paramIndex(startCheckCo, kv.Value)
			}
		})
		if goCall != nil && ccCall != nil && ccParam >= 0 && ccParam < len(ccCall.Args) {
			if id := identOf(ccCall.Args[ccParam]); id != nil {
				for i, arg := range goCall.Args {
					if id2 := identOf(arg); id2 != nil && info.Uses[id2] == info.Uses[id] && info.Uses[id] != nil {
						mergerParam = i
					}
				}
			}
		}
		c.Obl(r2, "StartConcur gives the merger goroutine and the CheckCo the same all-done channel", p.Pos(startConcur.Decl), mergerParam >= 0,
			"the channel closed by the merger is not (recognisably) the one stored in CheckCo.allDone: Stop would wait for something else or forever")
	}
	if mergerParam < 0 {
		return
	}
	doneObj := types.Object(merger.Param(mergerParam))
	closeOf := func(label string, isChan func(f *FuncSrc, e ast.Expr) bool) Ev {
		return Ev{label, func(f *FuncSrc, n ast.Node) bool {
			call, ok := n.(*ast.CallExpr)
			return ok && IsBuiltin(f.Info(), call, "close") && len(call.Args) == 1 && isChan(f, call.Args[0])
		}}
	}
	evCloseDone := closeOf("close(allDone)", func(f *FuncSrc, e ast.Expr) bool {
		id := identOf(e)
		return id != nil && f.Info().Uses[id] == doneObj
	})
	fl := &Flow{P: p, Node: Labeler(CallOf("persist", a.persist), evCloseDone),
		Implies: map[string][]string{"persist": {"final-state-written"}, "@state==prevState": {"final-state-written"}},
		Edge: func(f *FuncSrc, cond ast.Expr, truth bool) []string {
			be, ok := cond.(*ast.BinaryExpr)
			if !ok || (be.Op != token.EQL && be.Op != token.NEQ) {
				return nil
			}
			for _, pr := range [][2]ast.Expr{{be.X, be.Y}, {be.Y, be.X}} {
				if call, ok := ast.Unparen(pr[0]).(*ast.CallExpr); ok && sameFunc(Callee(f.Info(), call), a.getState) {
					if (be.Op == token.EQL) == truth {
						return []string{"@state==prevState"}
					}
					return []string{"@state!=prevState"}
				}
			}
			return nil
		}}
	res := fl.Analyze(merger)
	for _, s := range res.Of("close(allDone)") {
		c.Obl(r2, "merger: close(allDone) only after the final persist (or nothing changed since the last one)", p.Pos(s.Node), s.Before.Has("final-state-written"),
			"the merger signals completion on a path where the state differs from the last persisted one and persist was not called: Stop returns, close writes the marker, the last commits are not in the file")
	}
	c.Floor(r2, len(res.Of("close(allDone)")), 1, "close(allDone) in merger")
	nAfterLoop := 0
	for _, s := range res.Of("persist") {
		if s.Follows("close(allDone)") {
			nAfterLoop++
		}
	}
	c.Obl(r2, "merger: a persist from which every normal path reaches close(allDone) exists", p.Pos(merger.Decl), nAfterLoop >= 1,
		"no final persist on the way to close(allDone)")

	// Stop: send the stop message, then wait
	recvDone := Ev{"<-allDone", func(f *FuncSrc, n ast.Node) bool {
		u, ok := n.(*ast.UnaryExpr)
		return ok && u.Op == token.ARROW && FieldOf(f.Info(), u.X) == allDoneF
	}}
	putStop := Ev{"Put(stop)", func(f *FuncSrc, n ast.Node) bool {
		call, ok := n.(*ast.CallExpr)
		return ok && sameFunc(Callee(f.Info(), call), pqPut) && len(call.Args) >= 1 && ObjOf(f.Info(), call.Args[0]) == types.Object(stopPri)
	}}
	fl2 := &Flow{P: p, Node: Labeler(recvDone, putStop)}
	res2 := fl2.Analyze(stop)
	c.RequireBefore(r2, res2, "<-allDone", 1, "Put(stop)")
	c.Obl(r2, "CheckCo.Stop waits for the all-done signal on every normal path", p.Pos(stop.Decl), !res2.Exit.top && res2.Exit.done.Has("<-allDone"),
		"Stop can return without having received from allDone: close() proceeds to the marker while the merger may still be persisting")
	// the stop message is nil and carries no other payload
	for _, s := range res2.Of("Put(stop)") {
		call := s.Node.(*ast.CallExpr)
		c.Obl(r2, "CheckCo.Stop sends the nil message the checker recognises", p.Pos(call), len(call.Args) == 3 && isNilIdent(stop.Info(), call.Args[2]), "")
	}
	// checker: msg == nil ⇒ close(mergeChan) ⇒ return
	mcParam := -1
	for i := 0; ; i++ {
		prm := checker.Param(i)
		if prm == nil {
			break
		}
		if ch, ok := prm.Type().Underlying().(*types.Chan); ok {
			if n, ok := ch.Elem().(*types.Named); ok && n.Obj().Name() == "todo" {
				mcParam = i
			}
		}
	}
	if mcParam < 0 {
		c.Missing(r2, "merge channel parameter of db19.checker")
		return
	}
	mcObj := types.Object(checker.Param(mcParam))
	pqGet := p.DeclaredMethod("util/queue", "PriorityQueue", "Get")
	defsCk := buildDefs(checker)
	fl3 := &Flow{P: p, Node: Labeler(closeOf("close(mergeChan)", func(f *FuncSrc, e ast.Expr) bool {
		id := identOf(e)
		return id != nil && f.Info().Uses[id] == mcObj
	})), Edge: func(f *FuncSrc, cond ast.Expr, truth bool) []string {
		be, ok := cond.(*ast.BinaryExpr)
		if !ok || (be.Op != token.EQL && be.Op != token.NEQ) || pqGet == nil {
			return nil
		}
		for _, pr := range [][2]ast.Expr{{be.X, be.Y}, {be.Y, be.X}} {
			if isNilIdent(f.Info(), pr[1]) && defsCk.MentionsEv(f, pr[0], CallOf("", pqGet)) {
				if (be.Op == token.EQL) == truth {
					return []string{"@msg==nil"}
				}
			}
		}
		return nil
	}}
	res3 := fl3.Analyze(checker)
	c.RequireBefore(r2+" (the stop message closes the merge channel)", res3, "close(mergeChan)", 1, "@msg==nil")
	nret := 0
	for _, r := range res3.Returns {
		if r.Fn == checker && r.Before.Has("@msg==nil") {
			nret++
		}
	}
	c.Obl(r2, "checker returns on the stop message", p.Pos(checker.Decl), nret >= 1, "the checker goroutine does not end on the nil message")
}

func checkC04Layout(c *Ctx, a *stAnchors) {
	p := c.P
	r4 := "C04.4 K9+K1 writeState and readState agree on the state record"
	ws := c.src(r4, a.writeState, "db19.writeState")
	rs := c.src(r4, a.readState, "db19.readState")
	if ws == nil || rs == nil {
		return
	}
	stateLen := constInt(a.stateLenC)
	wl := extractLayout(p, a, ws, true)
	rl := extractLayout(p, a, rs, false)
	c.Stats["state_record_fields_written"] = len(wl.fields)
	c.Stats["state_record_fields_read"] = len(rl.fields)
	c.Obl(r4, "writeState: every access to the record is classified", p.Pos(ws.Decl), len(wl.bad) == 0, strings.Join(wl.bad, "; "))
	c.Obl(r4, "readState: every access to the record is classified", p.Pos(rs.Decl), len(rl.bad) == 0, strings.Join(rl.bad, "; "))
	c.Floor(r4, len(wl.fields), 6, "fields written by writeState")
	c.Floor(r4, len(rl.fields), 6, "fields read by readState")
	c.Obl(r4, "writeState allocates stateLen bytes", p.PosOf(wl.bufPos), wl.bufLen == stateLen,
		fmt.Sprintf("the record is allocated with %d bytes, stateLen is %d", wl.bufLen, stateLen))
	c.Obl(r4, "readState looks at stateLen bytes", p.PosOf(rl.bufPos), rl.bufLen == stateLen,
		fmt.Sprintf("the record is resliced to %d bytes, stateLen is %d", rl.bufLen, stateLen))
	// writer tiles [0,stateLen)
	var fieldsStr = func(l []recField) string {
		var out []string
		for _, f := range l {
			out = append(out, f.String())
		}
		return strings.Join(out, " ")
	}
	end := int64(0)
	tiles := true
	sum := int64(0)
	for _, f := range wl.fields {
		if f.off != end {
			tiles = false
		}
		end = f.off + f.width
		sum += f.width
	}
	c.Obl(r4, "the fields written tile [0, stateLen) without gap or overlap; stateLen is the sum of their widths", p.Pos(ws.Decl), tiles && end == stateLen && sum == stateLen,
		fmt.Sprintf("written fields: %s; sum of widths %d, stateLen %d", fieldsStr(wl.fields), sum, stateLen))
	c.Obl(r4, "magic2at + len(magic2) == stateLen", "", constInt(a.magic2atC)+int64(len(constStr(a.magic2C))) == stateLen && len(constStr(a.magic1C)) == len(constStr(a.magic2C)) && constStr(a.magic1C) != constStr(a.magic2C),
		fmt.Sprintf("magic2at=%d len(magic2)=%d stateLen=%d", constInt(a.magic2atC), len(constStr(a.magic2C)), stateLen))
	c.Obl(r4, "small offsets: accessed width == SmallOffsetLen on both sides", "", smallOffsetWidth(p, a.wso) == constInt(a.smallOffLenC) && smallOffsetWidth(p, a.rso) == constInt(a.smallOffLenC),
		fmt.Sprintf("WriteSmallOffset touches %d bytes, ReadSmallOffset %d, SmallOffsetLen is %d", smallOffsetWidth(p, a.wso), smallOffsetWidth(p, a.rso), constInt(a.smallOffLenC)))
	// every field read is a field written, same offset, width, kind
	type key struct {
		off, width int64
		kind       string
	}
	written := map[key]recField{}
	for _, f := range wl.fields {
		written[key{f.off, f.width, f.kind}] = f
	}
	for _, f := range rl.fields {
		_, ok := written[key{f.off, f.width, f.kind}]
		c.Obl(r4, "readState reads "+f.String()+" where writeState wrote it", p.PosOf(f.pos), ok,
			fmt.Sprintf("readState reads %s; writeState writes: %s", f, fieldsStr(wl.fields)))
	}
	read := map[key]bool{}
	for _, f := range rl.fields {
		read[key{f.off, f.width, f.kind}] = true
	}
	for _, f := range wl.fields {
		if !strings.HasPrefix(f.kind, "const") && !strings.HasPrefix(f.kind, "cksum") {
			c.Obl(r4, "value written at "+f.String()+" is read back", p.PosOf(f.pos), read[key{f.off, f.width, f.kind}],
				"a value stored in the state record is never loaded by readState")
		}
	}
	// roles: the chain whose offset sits at each small-offset position
	wChain := chainOfWriterParam(c, r4, a)
	rChain := chainOfReaderResult(c, r4, a)
	for _, f := range wl.fields {
		if f.kind != "smalloffset" {
			continue
		}
		var rf *recField
		for i := range rl.fields {
			if rl.fields[i].off == f.off && rl.fields[i].kind == f.kind {
				rf = &rl.fields[i]
			}
		}
		wc, rc := wChain[f.role], ""
		if rf != nil {
			rc = rChain[rf.role]
		}
		c.Obl(r4, fmt.Sprintf("the small offset at %d is the same metadata chain for writer and reader", f.off), p.PosOf(f.pos), wc != "" && wc == rc,
			fmt.Sprintf("writeState stores %s (%s chain) at %d; readState returns these bytes as %s (%s chain)", f.role, orq(wc), f.off, roleOf(rf), orq(rc)))
	}
}

func orq(s string) string {
	if s == "" {
		return "?"
	}
	return s
}
func roleOf(f *recField) string {
	if f == nil {
		return "nothing"
	}
	return orq(f.role)
}

// chainFieldOfRecv: x.schema.WriteChain → "schema"
func metaChainFields(p *Prog) (schemaF, infoF *types.Var) {
	return p.Field("db19/meta", "Meta", "schema"), p.Field("db19/meta", "Meta", "info")
}

// chainOfWriterParam: "param N" of writeState → "schema"/"info", through DbState.Write and Meta.Write.
func chainOfWriterParam(c *Ctx, rule string, a *stAnchors) map[string]string {
	p := c.P
	out := map[string]string{}
	schemaF, infoF := metaChainFields(p)
	metaWrite := p.DeclaredMethod("db19/meta", "Meta", "Write")
	mw := p.Src(metaWrite)
	if schemaF == nil || infoF == nil || mw == nil {
		c.Missing(rule, "meta.Meta.schema / info / Write")
		return out
	}
	// Meta.Write: result k ← m.<field>.WriteChain(...)
	resChain := map[int]string{}
	ForEachNode(mw, func(n ast.Node) {
		as, ok := n.(*ast.AssignStmt)
		if !ok || len(as.Rhs) != 1 || len(as.Lhs) < 1 {
			return
		}
		call, ok := ast.Unparen(as.Rhs[0]).(*ast.CallExpr)
		if !ok {
			return
		}
		sel, ok := ast.Unparen(call.Fun).(*ast.SelectorExpr)
		if !ok {
			return
		}
		var chain string
		switch FieldOf(mw.Info(), sel.X) {
		case schemaF:
			chain = "schema"
		case infoF:
			chain = "info"
		default:
			return
		}
		if id, ok := as.Lhs[0].(*ast.Ident); ok {
			if k := resultIndex(mw, objOfIdent(mw.Info(), id)); k >= 0 {
				resChain[k] = chain
			}
		}
	})
	n := 0
	for _, site := range p.CallersOf(a.writeState) {
		if site.Call == nil {
			continue
		}
		n++
		for j, arg := range site.Call.Args {
			id := identOf(arg)
			if id == nil {
				continue
			}
			call, k := tupleSource(site.In, site.In.Info().Uses[id])
			if call != nil && sameFunc(Callee(site.In.Info(), call), metaWrite) {
				role := fmt.Sprintf("param %d", j)
				ch := resChain[k]
				if prev, ok := out[role]; ok && prev != ch {
					ch = "conflicting"
				}
				out[role] = ch
			}
		}
	}
	c.Floor(rule, n, 1, "callers of writeState")
	return out
}

// chainOfReaderResult: "result N" of readState → "schema"/"info", through every caller's
// ReadMeta(store, …) and ReadMeta's use of its parameters.
func chainOfReaderResult(c *Ctx, rule string, a *stAnchors) map[string]string {
	p := c.P
	out := map[string]string{}
	schemaF, infoF := metaChainFields(p)
	readMeta := p.Func("db19/meta", "ReadMeta")
	rm := p.Src(readMeta)
	if schemaF == nil || infoF == nil || rm == nil {
		c.Missing(rule, "meta.ReadMeta")
		return out
	}
	paramChain := map[int]string{}
	ForEachNode(rm, func(n ast.Node) {
		var field *types.Var
		var val ast.Expr
		switch v := n.(type) {
		case *ast.KeyValueExpr:
			if id, ok := v.Key.(*ast.Ident); ok {
				field, _ = rm.Info().Uses[id].(*types.Var)
				val = v.Value
			}
		case *ast.AssignStmt:
			if len(v.Lhs) == 1 && len(v.Rhs) == 1 {
				field, val = lhsField(rm.Info(), v.Lhs[0], false), v.Rhs[0]
			}
		}
		if field == nil || val == nil {
			return
		}
		chain := ""
		switch field {
		case schemaF:
			chain = "schema"
		case infoF:
			chain = "info"
		default:
			return
		}
		call, ok := ast.Unparen(val).(*ast.CallExpr)
		if !ok {
			return
		}
		for _, arg := range call.Args {
			if j := paramIndex(rm, arg); j >= 0 {
				if _, isInt := rm.Param(j).Type().Underlying().(*types.Basic); isInt {
					paramChain[j] = chain
				}
			}
		}
	})
	n := 0
	for _, site := range p.CallersOf(a.readState) {
		if site.Call == nil {
			continue
		}
		n++
		// the variables receiving the results at this call site
		par := parentMap(site.Fn.Body)
		as, ok := par[site.Call].(*ast.AssignStmt)
		okSite := false
		local := map[string]string{}
		if ok && len(as.Lhs) == 3 {
			vars := map[types.Object]int{}
			for k, l := range as.Lhs {
				if id, ok := l.(*ast.Ident); ok {
					if o := objOfIdent(site.In.Info(), id); o != nil {
						vars[o] = k
					}
				}
			}
			// ReadMeta calls in the same function using them
			for _, rmCall := range p.CallsIn(site.Fn, readMeta) {
				for j, arg := range rmCall.Args {
					id := identOf(arg)
					if id == nil {
						continue
					}
					if k, ok := vars[site.In.Info().Uses[id]]; ok && paramChain[j] != "" {
						role := fmt.Sprintf("result %d", k)
						local[role] = paramChain[j]
						okSite = true
					}
				}
			}
		}
		c.Obl(rule, site.Fn.name+": results of readState are handed to ReadMeta", p.Pos(site.Call), okSite && len(local) == 2,
			"the offsets returned by readState do not (recognisably) reach meta.ReadMeta in this caller")
		for role, ch := range local {
			if prev, ok := out[role]; ok && prev != ch {
				c.Obl(rule, site.Fn.name+": same (schema, info) order as the other readers", p.Pos(site.Call), false,
					fmt.Sprintf("%s goes to the %s chain here and to the %s chain elsewhere", role, ch, prev))
				continue
			}
			out[role] = ch
		}
	}
	c.Floor(rule, n, 4, "callers of readState")
	return out
}

// WritersVia is K2 with one level of helper extraction tolerated: a function containing
// the event passes if it is in allowed, or if every reference to it is a call from an
// allowed function.
func (c *Ctx) WritersVia(rule, what string, pkgs []string, ev Ev, allowed []string, floor int) {
	m := c.P.FuncsWith(pkgs, ev)
	var fns []*FuncSrc
	for fs := range m {
		fns = append(fns, fs)
	}
	sort.Slice(fns, func(i, j int) bool { return fns[i].name < fns[j].name })
	for _, fs := range fns {
		ok := inList(fs.name, allowed)
		via := ""
		if !ok && fs.Obj != nil {
			sites := c.P.CallersOf(fs.Obj)
			ok = len(sites) > 0
			for _, s := range sites {
				if s.Call == nil || !inList(s.Fn.name, allowed) {
					ok = false
				}
			}
			if ok {
				via = " (helper called only from the confirmed writers)"
			}
		}
		d := ""
		if !ok {
			d = fmt.Sprintf("%s is written in %s, which is not one of the %d confirmed writers %v (nor a helper called only by them)", what, fs.name, len(allowed), allowed)
		}
		c.Obl(rule, "writer "+what+" in "+fs.name+via, c.P.Pos(m[fs][0]), ok, d)
	}
	c.Floor(rule, len(fns), floor, "writers of "+what)
}

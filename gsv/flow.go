package main

// The path engine: forward "must have happened" and backward "must still happen on
// every normal path" data-flow over go/cfg, with
//   - immediately invoked and callback function literals spliced at their call,
//   - deferred calls applied at every exit,
//   - callee summaries (static callees with source, bounded depth),
//   - edge facts from branch conditions (&&, ||, ! decomposed; switch cases),
//   - kill labels (a label starting with '-' removes the label after it).
// Panicking paths (panic, log.Fatal, os.Exit, calls of functions that never return)
// are not normal paths.

import (
	"go/ast"
	"go/token"
	"go/types"
	"sort"
	"strings"

	"golang.org/x/tools/go/cfg"
)

type Set map[string]bool

func (s Set) clone() Set {
	r := make(Set, len(s))
	for k := range s {
		r[k] = true
	}
	return r
}
func (s Set) Has(l string) bool { return s[l] }
func (s Set) HasAny(ls ...string) bool {
	for _, l := range ls {
		if s[l] {
			return true
		}
	}
	return false
}
func (s Set) HasPrefix(pfx string) bool {
	for l := range s {
		if strings.HasPrefix(l, pfx) {
			return true
		}
	}
	return false
}
func (s Set) Sorted() []string {
	out := make([]string, 0, len(s))
	for k := range s {
		out = append(out, k)
	}
	sort.Strings(out)
	return out
}
func (s Set) equal(o Set) bool {
	if len(s) != len(o) {
		return false
	}
	for k := range s {
		if !o[k] {
			return false
		}
	}
	return true
}
func inter(a, b Set) Set {
	r := Set{}
	for k := range a {
		if b[k] {
			r[k] = true
		}
	}
	return r
}
func union(a, b Set) Set {
	r := a.clone()
	for k := range b {
		r[k] = true
	}
	return r
}

// fstate: done = labels that have definitely happened; deferred = labels of deferred
// calls that will definitely run at exit.  top = unreachable.
type fstate struct {
	top      bool
	done     Set
	deferred Set
}

func topState() fstate { return fstate{top: true} }
func (a fstate) meet(b fstate) fstate {
	if a.top {
		return b
	}
	if b.top {
		return a
	}
	return fstate{done: inter(a.done, b.done), deferred: inter(a.deferred, b.deferred)}
}
func (a fstate) equal(b fstate) bool {
	if a.top != b.top {
		return false
	}
	if a.top {
		return true
	}
	return a.done.equal(b.done) && a.deferred.equal(b.deferred)
}
func (a fstate) clone() fstate {
	if a.top {
		return a
	}
	return fstate{done: a.done.clone(), deferred: a.deferred.clone()}
}

type Flow struct {
	P *Prog
	// Node returns the labels of an AST node itself (children are visited separately,
	// before their parent).  Called for every node of the body.
	Node func(fs *FuncSrc, n ast.Node) []string
	// Edge returns the labels (by convention starting with '@') that hold when the
	// atomic condition cond evaluates to truth.
	Edge func(fs *FuncSrc, cond ast.Expr, truth bool) []string
	// Depth of callee summaries (0 = none).
	Depth int
	// Callback reports whether a function literal passed as argument i of a call
	// to callee runs synchronously, exactly once, during the call.
	Callback func(callee *types.Func, arg int) bool
	// NoSummary suppresses the summary of particular callees.
	NoSummary func(callee *types.Func) bool
	// Implies adds derived labels: whenever label k is generated, Implies[k] are too.
	// Used to express disjunctions ("A or B happened") in a must-analysis.
	Implies map[string][]string
	// BlockEntry returns labels (gen or '-' kill) applied on entry to a block; used
	// for per-iteration facts (kill at the entry of a loop body).
	BlockEntry func(fs *FuncSrc, b *cfg.Block) []string

	summ    map[summKey]*summary
	inprog  map[*FuncSrc]bool
	cfgs    map[*FuncSrc]*fnCFG
	noret   map[*types.Func]int
	atomsOf map[atomKey][]*atom
}

type summKey struct {
	fs    *FuncSrc
	depth int
}
type atomKey struct {
	fs    *FuncSrc
	n     ast.Node
	depth int
}

type summary struct {
	must  Set // labels that happened on every normal path (never '@' labels)
	kills Set // labels that may be killed
	noret bool
}

type atom struct {
	node     ast.Node
	gen      []string // labels of the node itself
	via      []string // labels from the callee's summary
	kill     []string
	lit      *FuncSrc // spliced literal executed here
	deferGen []string // labels added to the deferred set (defer statement)
	deferLit *FuncSrc
	isReturn bool
	maybe    bool // conditionally evaluated (right operand of && / ||): nothing is generated
	noret    bool // call never returns
}

type Site struct {
	Fn     *FuncSrc // innermost function (declaration or literal) containing the node
	Node   ast.Node
	Label  string
	Direct bool // label produced by the node itself (not through a callee summary)
	Maybe  bool
	Before Set // must-before, including edge facts
	After  Set // must-after on every normal path to the exit of the analysed function
}

type Result struct {
	Fn       *FuncSrc
	Sites    []*Site
	Exit     fstate // must at normal exit (done ∪ deferred); top if no normal exit
	Returns  []*ReturnSite
	Loops    []*LoopEdge
	siteIdx  map[siteKey]*Site
	retDefer map[ast.Node]Set
}

// LoopEdge: the must-set on an edge that ends an iteration of a loop ("back": jumps to
// the loop head / post statement; "break": leaves the loop from inside its body).
type LoopEdge struct {
	Fn     *FuncSrc
	Loop   ast.Stmt
	Kind   string
	Before Set
}

type ReturnSite struct {
	Fn     *FuncSrc
	Node   *ast.ReturnStmt
	Before Set
}

type siteKey struct {
	n ast.Node
	l string
}

func (r *Result) Of(labels ...string) []*Site {
	var out []*Site
	for _, s := range r.Sites {
		for _, l := range labels {
			if s.Label == l {
				out = append(out, s)
				break
			}
		}
	}
	return out
}

func (r *Result) OfPrefix(pfx string) []*Site {
	var out []*Site
	for _, s := range r.Sites {
		if strings.HasPrefix(s.Label, pfx) {
			out = append(out, s)
		}
	}
	return out
}

type fnCFG struct {
	inBody  map[ast.Stmt]map[int32]bool // loop -> blocks inside its body
	g       *cfg.CFG
	swOf    map[*ast.CaseClause]ast.Stmt // enclosing switch of a case clause
	swallow bool                         // has a deferred recover that does not re-panic
}

func (fl *Flow) init() {
	if fl.summ == nil {
		fl.summ = map[summKey]*summary{}
		fl.inprog = map[*FuncSrc]bool{}
		fl.cfgs = map[*FuncSrc]*fnCFG{}
		fl.noret = map[*types.Func]int{}
		fl.atomsOf = map[atomKey][]*atom{}
	}
}

// ---- never-returning calls

var noReturnFuncs = map[string]bool{
	"os.Exit": true, "log.Fatal": true, "log.Fatalf": true, "log.Fatalln": true,
	"runtime.Goexit": true, "log.Panic": true, "log.Panicf": true, "log.Panicln": true,
}

// NoReturn reports whether a declared function never returns normally
// (every path ends in panic or another never-returning call).
func (fl *Flow) NoReturn(f *types.Func) bool {
	fl.init()
	if f == nil {
		return false
	}
	if f.Pkg() != nil && noReturnFuncs[f.Pkg().Path()+"."+f.Name()] {
		return true
	}
	switch fl.noret[f] {
	case 1:
		return true
	case 2, 3:
		return false // 3 = in progress (recursion): assume it returns
	}
	fs := fl.P.Src(f)
	if fs == nil || fs.Body == nil {
		fl.noret[f] = 2
		return false
	}
	fl.noret[f] = 3
	c := fl.cfgOf(fs)
	r := 2
	if c.g.NoReturn() && !c.swallow {
		r = 1
	}
	fl.noret[f] = r
	return r == 1
}

func (fl *Flow) mayReturn(fs *FuncSrc) func(*ast.CallExpr) bool {
	return func(call *ast.CallExpr) bool {
		if IsBuiltin(fs.Info(), call, "panic") {
			return false
		}
		if f := Callee(fs.Info(), call); f != nil {
			if !fl.isStatic(f) {
				return true
			}
			return !fl.NoReturn(f)
		}
		return true
	}
}

func (fl *Flow) cfgOf(fs *FuncSrc) *fnCFG {
	fl.init()
	if c := fl.cfgs[fs]; c != nil {
		return c
	}
	c := &fnCFG{swOf: map[*ast.CaseClause]ast.Stmt{}}
	fl.cfgs[fs] = c // break recursion through mayReturn
	// a placeholder graph while building (recursive NoReturn queries see "returns")
	c.g = cfg.New(&ast.BlockStmt{}, func(*ast.CallExpr) bool { return true })
	mr := fl.mayReturn(fs)
	safe := func(call *ast.CallExpr) (r bool) {
		defer func() {
			if recover() != nil {
				r = true
			}
		}()
		return mr(call)
	}
	c.g = cfg.New(fs.Body, safe)
	ast.Inspect(fs.Body, func(n ast.Node) bool {
		switch s := n.(type) {
		case *ast.FuncLit:
			return false
		case *ast.SwitchStmt:
			for _, cl := range s.Body.List {
				c.swOf[cl.(*ast.CaseClause)] = s
			}
		case *ast.TypeSwitchStmt:
			for _, cl := range s.Body.List {
				c.swOf[cl.(*ast.CaseClause)] = s
			}
		case *ast.DeferStmt:
			if lit, ok := s.Call.Fun.(*ast.FuncLit); ok {
				hasRecover, hasPanic := false, false
				ast.Inspect(lit.Body, func(m ast.Node) bool {
					if call, ok := m.(*ast.CallExpr); ok {
						if IsBuiltin(fs.Info(), call, "recover") {
							hasRecover = true
						}
						if IsBuiltin(fs.Info(), call, "panic") {
							hasPanic = true
						} else if f := Callee(fs.Info(), call); f != nil && fl.NoReturn(f) {
							hasPanic = true
						}
					}
					return true
				})
				if hasRecover && !hasPanic {
					c.swallow = true
				}
			}
		}
		return true
	})
	return c
}

// Swallows reports whether the function has a deferred recover that never re-panics,
// i.e. a panic inside it turns into a normal return.
func (fl *Flow) Swallows(fs *FuncSrc) bool { return fl.cfgOf(fs).swallow }

// ---- atoms

func splitLabels(ls []string) (gen, kill []string) {
	for _, l := range ls {
		if strings.HasPrefix(l, "-") {
			kill = append(kill, l[1:])
		} else {
			gen = append(gen, l)
		}
	}
	return
}

func (fl *Flow) nodeLabels(fs *FuncSrc, n ast.Node) []string {
	if fl.Node == nil {
		return nil
	}
	return fl.expand(fl.Node(fs, n))
}

func (fl *Flow) expand(ls []string) []string {
	if fl.Implies == nil || len(ls) == 0 {
		return ls
	}
	out := ls
	for _, l := range ls {
		out = append(out, fl.Implies[l]...)
	}
	return out
}

// atoms returns the events of node n in evaluation order.
func (fl *Flow) atoms(fs *FuncSrc, n ast.Node, depth int) []*atom {
	key := atomKey{fs, n, depth}
	if a, ok := fl.atomsOf[key]; ok {
		return a
	}
	var out []*atom
	fl.collect(fs, n, depth, false, &out)
	fl.atomsOf[key] = out
	return out
}

func (fl *Flow) collect(fs *FuncSrc, n ast.Node, depth int, maybe bool, out *[]*atom) {
	if n == nil {
		return
	}
	emit := func(m ast.Node) {
		gen, kill := splitLabels(fl.nodeLabels(fs, m))
		a := &atom{node: m, gen: gen, kill: kill, maybe: maybe}
		if rs, ok := m.(*ast.ReturnStmt); ok {
			_ = rs
			a.isReturn = true
		}
		if a.isReturn || len(gen) > 0 || len(kill) > 0 {
			*out = append(*out, a)
		}
	}
	switch n := n.(type) {
	case *ast.FuncLit:
		emit(n) // the literal as a value (not executed here)
		return
	case *ast.DeferStmt:
		for _, a := range n.Call.Args {
			fl.collect(fs, a, depth, maybe, out)
		}
		if sel, ok := n.Call.Fun.(*ast.SelectorExpr); ok {
			fl.collect(fs, sel.X, depth, maybe, out)
		}
		a := &atom{node: n, maybe: maybe}
		if lit, ok := n.Call.Fun.(*ast.FuncLit); ok {
			ls := fl.P.Lits[lit]
			a.deferLit = ls
			if ls != nil {
				s := fl.summarize(ls, depth)
				a.deferGen = s.must.Sorted()
			}
		} else {
			gen, _ := splitLabels(fl.nodeLabels(fs, n.Call))
			a.deferGen = append(a.deferGen, gen...)
			if f := Callee(fs.Info(), n.Call); f != nil && depth > 0 {
				if s := fl.calleeSummary(f, depth-1); s != nil {
					a.deferGen = append(a.deferGen, s.must.Sorted()...)
				}
			}
		}
		g, k := splitLabels(fl.nodeLabels(fs, n))
		a.gen, a.kill = g, k
		*out = append(*out, a)
		return
	case *ast.GoStmt:
		for _, a := range n.Call.Args {
			fl.collect(fs, a, depth, maybe, out)
		}
		emit(n)
		return
	case *ast.BinaryExpr:
		if n.Op == token.LAND || n.Op == token.LOR {
			fl.collect(fs, n.X, depth, maybe, out)
			fl.collect(fs, n.Y, depth, true, out)
			emit(n)
			return
		}
	case *ast.CallExpr:
		// operands first
		var cbLits []*FuncSrc
		callee := Callee(fs.Info(), n)
		if lit, ok := ast.Unparen(n.Fun).(*ast.FuncLit); ok {
			for _, a := range n.Args {
				fl.collect(fs, a, depth, maybe, out)
			}
			if ls := fl.P.Lits[lit]; ls != nil {
				*out = append(*out, &atom{node: n, lit: ls, maybe: maybe})
			}
			emit(n)
			return
		}
		fl.collect(fs, n.Fun, depth, maybe, out)
		for i, a := range n.Args {
			if lit, ok := ast.Unparen(a).(*ast.FuncLit); ok && callee != nil && fl.Callback != nil && fl.Callback(callee, i) {
				if ls := fl.P.Lits[lit]; ls != nil {
					cbLits = append(cbLits, ls)
					continue
				}
			}
			fl.collect(fs, a, depth, maybe, out)
		}
		gen, kill := splitLabels(fl.nodeLabels(fs, n))
		a := &atom{node: n, gen: gen, kill: kill, maybe: maybe}
		if IsBuiltin(fs.Info(), n, "panic") {
			a.noret = true
		}
		if callee != nil {
			if fl.isStatic(callee) && fl.NoReturn(callee) {
				a.noret = true
			}
			if depth > 0 && (fl.NoSummary == nil || !fl.NoSummary(callee)) {
				if s := fl.calleeSummary(callee, depth-1); s != nil {
					a.via = s.must.Sorted()
					a.kill = append(a.kill, s.kills.Sorted()...)
				}
			}
		}
		*out = append(*out, a)
		for _, ls := range cbLits {
			*out = append(*out, &atom{node: n, lit: ls, maybe: maybe})
		}
		return
	}
	// generic: children in source order, then the node
	children(n, func(c ast.Node) { fl.collect(fs, c, depth, maybe, out) })
	emit(n)
}

func (fl *Flow) isStatic(f *types.Func) bool {
	sig := f.Type().(*types.Signature)
	if sig.Recv() == nil {
		return true
	}
	_, isIface := sig.Recv().Type().Underlying().(*types.Interface)
	return !isIface
}

// children calls f for the direct children of n in source order.
func children(n ast.Node, f func(ast.Node)) {
	first := true
	ast.Inspect(n, func(c ast.Node) bool {
		if c == nil {
			return false
		}
		if first {
			first = false
			return true
		}
		f(c)
		return false
	})
}

func (fl *Flow) calleeSummary(f *types.Func, depth int) *summary {
	if !fl.isStatic(f) {
		return nil
	}
	fs := fl.P.Src(f)
	if fs == nil || fs.Body == nil {
		return nil
	}
	return fl.summarize(fs, depth)
}

func (fl *Flow) summarize(fs *FuncSrc, depth int) *summary {
	fl.init()
	k := summKey{fs, depth}
	if s := fl.summ[k]; s != nil {
		return s
	}
	if fl.inprog[fs] {
		return &summary{must: Set{}, kills: Set{}}
	}
	fl.inprog[fs] = true
	defer delete(fl.inprog, fs)
	kills := Set{}
	exit := fl.forward(fs, fstate{done: Set{}, deferred: Set{}}, depth, nil, kills)
	s := &summary{must: Set{}, kills: kills}
	if exit.top {
		s.noret = true
	} else {
		for l := range exit.done {
			if !strings.HasPrefix(l, "@") {
				s.must[l] = true
			}
		}
	}
	fl.summ[k] = s
	return s
}

// ---- conditions

type condFact struct {
	e     ast.Expr
	truth bool
}

// condFacts decomposes a condition into atomic facts known on the given edge.
func condFacts(e ast.Expr, truth bool, out *[]condFact) {
	e = ast.Unparen(e)
	switch x := e.(type) {
	case *ast.UnaryExpr:
		if x.Op == token.NOT {
			condFacts(x.X, !truth, out)
			return
		}
	case *ast.BinaryExpr:
		if x.Op == token.LAND && truth || x.Op == token.LOR && !truth {
			condFacts(x.X, truth, out)
			condFacts(x.Y, truth, out)
			return
		}
		// a true disjunction / false conjunction: nothing definite about the operands,
		// the compound itself is kept as one fact
	}
	*out = append(*out, condFact{e, truth})
}

func (fl *Flow) edgeLabels(fs *FuncSrc, c *fnCFG, b *cfg.Block, succ int) []string {
	if fl.Edge == nil || len(b.Succs) != 2 || len(b.Nodes) == 0 {
		return nil
	}
	cond, ok := b.Nodes[len(b.Nodes)-1].(ast.Expr)
	if !ok {
		return nil
	}
	truth := succ == 0
	// `ok := <expr>` immediately followed by `if ok` / `if !ok`: the facts are those of <expr>
	// (only when the definition is the node right before the condition in the same block, so
	// nothing can have changed in between)
	if len(b.Nodes) >= 2 {
		inner := ast.Unparen(cond)
		neg := false
		if u, ok := inner.(*ast.UnaryExpr); ok && u.Op == token.NOT {
			inner, neg = ast.Unparen(u.X), true
		}
		if id, ok := inner.(*ast.Ident); ok {
			if as, ok := b.Nodes[len(b.Nodes)-2].(*ast.AssignStmt); ok && len(as.Lhs) == 1 && len(as.Rhs) == 1 && (as.Tok == token.DEFINE || as.Tok == token.ASSIGN) {
				if lid, ok := as.Lhs[0].(*ast.Ident); ok && lid.Name == id.Name && fs.Info().ObjectOf(lid) == fs.Info().ObjectOf(id) {
					if t := fs.Info().TypeOf(as.Rhs[0]); t != nil {
						if bt, ok := t.Underlying().(*types.Basic); ok && bt.Info()&types.IsBoolean != 0 {
							if _, isCall := ast.Unparen(as.Rhs[0]).(*ast.CallExpr); !isCall {
								cond = as.Rhs[0]
								if neg {
									cond = &ast.UnaryExpr{Op: token.NOT, X: &ast.ParenExpr{X: as.Rhs[0]}, OpPos: as.Rhs[0].Pos()}
								}
							}
						}
					}
				}
			}
		}
	}
	// switch case?  successor 0 is the case body
	if cc, ok := b.Succs[0].Stmt.(*ast.CaseClause); ok && b.Succs[0].Kind == cfg.KindSwitchCaseBody {
		isCaseExpr := false
		for _, ce := range cc.List {
			if ce == cond {
				isCaseExpr = true
			}
		}
		if isCaseExpr {
			if sw, ok := c.swOf[cc].(*ast.SwitchStmt); ok && sw.Tag != nil {
				cond = &ast.BinaryExpr{X: sw.Tag, Op: token.EQL, Y: cond, OpPos: cond.Pos()}
				// with several case expressions the true edge of one is not "all"
				return fl.expand(fl.Edge(fs, cond, truth))
			}
		}
	}
	if _, isIf := b.Succs[0].Stmt.(*ast.IfStmt); !isIf {
		if _, isFor := b.Succs[0].Stmt.(*ast.ForStmt); !isFor {
			if _, isCase := b.Succs[0].Stmt.(*ast.CaseClause); !isCase {
				return nil
			}
		}
	}
	var facts []condFact
	condFacts(cond, truth, &facts)
	var out []string
	for _, f := range facts {
		out = append(out, fl.Edge(fs, f.e, f.truth)...)
	}
	return fl.expand(out)
}

// ---- forward

type recorder struct {
	res *Result
}

func (fl *Flow) forward(fs *FuncSrc, entry fstate, depth int, rec *recorder, kills Set) fstate {
	c := fl.cfgOf(fs)
	blocks := c.g.Blocks
	if len(blocks) == 0 {
		return entry
	}
	in := make([]fstate, len(blocks))
	for i := range in {
		in[i] = topState()
	}
	in[0] = entry.clone()
	exit := topState()
	run := func(record bool) bool {
		changed := false
		exit = topState()
		for _, b := range blocks {
			if !b.Live {
				continue
			}
			cur := in[b.Index].clone()
			if cur.top {
				continue
			}
			dead := false
			for _, n := range b.Nodes {
				for _, a := range fl.atoms(fs, n, depth) {
					if dead {
						break
					}
					var r *recorder
					if record {
						r = rec
					}
					if !fl.applyForward(fs, a, &cur, depth, r, kills, &exit) {
						dead = true
					}
				}
			}
			if dead {
				if c.swallow {
					exit = exit.meet(fstate{done: union(cur.done, cur.deferred), deferred: Set{}})
				}
				continue
			}
			if len(b.Succs) == 0 {
				// no successor and no return: panic exit (or swallowed panic)
				last := lastIsReturn(b)
				if !last && c.swallow {
					exit = exit.meet(fstate{done: union(cur.done, cur.deferred), deferred: Set{}})
				}
				continue
			}
			for i, s := range b.Succs {
				out := cur
				if ls := fl.edgeLabels(fs, c, b, i); len(ls) > 0 {
					out = cur.clone()
					for _, l := range ls {
						if strings.HasPrefix(l, "-") {
							delete(out.done, l[1:])
						} else {
							out.done[l] = true
						}
					}
				}
				if record && rec != nil {
					if k, loop := c.loopEdge(b, s); k != "" {
						rec.res.Loops = append(rec.res.Loops, &LoopEdge{Fn: fs, Loop: loop, Kind: k, Before: out.done.clone()})
					}
				}
				if ls := fl.blockLabels(fs, c, s); len(ls) > 0 {
					out = out.clone()
					for _, l := range ls {
						out.done[l] = true
					}
				}
				if fl.BlockEntry != nil {
					if ls := fl.BlockEntry(fs, s); len(ls) > 0 {
						out = out.clone()
						for _, l := range ls {
							if strings.HasPrefix(l, "-") {
								delete(out.done, l[1:])
							} else {
								out.done[l] = true
							}
						}
					}
				}
				m := in[s.Index].meet(out)
				if !m.equal(in[s.Index]) {
					in[s.Index] = m.clone()
					changed = true
				}
			}
		}
		return changed
	}
	for i := 0; run(false); i++ {
		if i > 200 {
			panic("flow: no fixpoint in " + fs.name)
		}
	}
	if rec != nil {
		run(true)
	}
	return exit
}

func lastIsReturn(b *cfg.Block) bool {
	if len(b.Nodes) == 0 {
		return false
	}
	_, ok := b.Nodes[len(b.Nodes)-1].(*ast.ReturnStmt)
	return ok
}

// blockLabels: facts on entry to a block: the case type(s) of a type switch clause.
func (fl *Flow) blockLabels(fs *FuncSrc, c *fnCFG, b *cfg.Block) []string {
	if b.Kind != cfg.KindSwitchCaseBody {
		return nil
	}
	cc, ok := b.Stmt.(*ast.CaseClause)
	if !ok {
		return nil
	}
	if _, ok := c.swOf[cc].(*ast.TypeSwitchStmt); !ok {
		return nil
	}
	if len(cc.List) != 1 {
		if cc.List == nil {
			return []string{"@typecase:default"}
		}
		return nil
	}
	if t := fs.Info().TypeOf(cc.List[0]); t != nil {
		return []string{"@typecase:" + types.TypeString(t, func(p *types.Package) string { return pkgShort(p.Path()) })}
	}
	return nil
}

// applyForward applies one atom; returns false if control does not continue.
func (fl *Flow) applyForward(fs *FuncSrc, a *atom, cur *fstate, depth int, rec *recorder, kills Set, exit *fstate) bool {
	if a.lit != nil {
		if a.maybe {
			// conditionally executed literal: analyse for sites only
			if rec != nil {
				fl.forward(a.lit, fstate{done: cur.done.clone(), deferred: Set{}}, depth, rec, kills)
			}
			return true
		}
		ex := fl.forward(a.lit, fstate{done: cur.done.clone(), deferred: Set{}}, depth, rec, kills)
		if ex.top {
			return false
		}
		// '@' facts of the literal are local to it; facts of the parent persist
		nd := Set{}
		for l := range ex.done {
			if !strings.HasPrefix(l, "@") || cur.done[l] {
				nd[l] = true
			}
		}
		cur.done = nd
		return true
	}
	if rec != nil {
		before := cur.done.clone()
		for _, l := range a.gen {
			rec.res.add(&Site{Fn: fs, Node: a.node, Label: l, Direct: true, Maybe: a.maybe, Before: before})
		}
		for _, l := range a.via {
			rec.res.add(&Site{Fn: fs, Node: a.node, Label: l, Direct: false, Maybe: a.maybe, Before: before})
		}
		if a.deferLit != nil {
			// sites inside a deferred literal: analysed on its own (runs at exit)
			fl.forward(a.deferLit, fstate{done: Set{}, deferred: Set{}}, depth, rec, Set{})
		}
	}
	for _, k := range a.kill {
		delete(cur.done, k)
		if kills != nil {
			kills[k] = true
		}
	}
	if !a.maybe {
		for _, l := range a.gen {
			cur.done[l] = true
		}
		for _, l := range a.via {
			cur.done[l] = true
		}
		for _, l := range a.deferGen {
			cur.deferred[l] = true
		}
	}
	if a.isReturn {
		if rec != nil {
			if rs, ok := a.node.(*ast.ReturnStmt); ok {
				rec.res.Returns = append(rec.res.Returns, &ReturnSite{Fn: fs, Node: rs, Before: cur.done.clone()})
				rec.res.retDefer[a.node] = cur.deferred.clone()
			}
		}
		*exit = exit.meet(fstate{done: union(cur.done, cur.deferred), deferred: Set{}})
		return false
	}
	if a.noret && !a.maybe {
		return false
	}
	return true
}

func (r *Result) add(s *Site) {
	k := siteKey{s.Node, s.Label}
	if old := r.siteIdx[k]; old != nil {
		// the recording pass visits each node once per enclosing analysis; keep the first
		return
	}
	r.siteIdx[k] = s
	r.Sites = append(r.Sites, s)
}

// ---- backward

type bst struct {
	top bool
	s   Set
}

func bmeet(a, b bst) bst {
	if a.top {
		return b
	}
	if b.top {
		return a
	}
	return bst{s: inter(a.s, b.s)}
}

func (a bst) clone() bst {
	if a.top {
		return a
	}
	return bst{s: a.s.clone()}
}

// backward computes, for every recorded site, the labels that must still happen on
// every normal path from just after the site to the exit of the analysed (outermost)
// function.  exitAfter: what is known to happen after this function returns (top =
// the parent never returns normally after the call).
func (fl *Flow) backward(fs *FuncSrc, exitAfter bst, depth int, res *Result, record bool) bst {
	c := fl.cfgOf(fs)
	blocks := c.g.Blocks
	startS := make([]bst, len(blocks)) // state at the start of each block
	for i := range startS {
		startS[i] = bst{top: true}
	}
	run := func(record bool) bool {
		changed := false
		for bi := len(blocks) - 1; bi >= 0; bi-- {
			b := blocks[bi]
			if !b.Live {
				continue
			}
			cur := bst{top: true} // state at end of block
			if len(b.Succs) > 0 {
				for _, s := range b.Succs {
					cur = bmeet(cur, startS[s.Index])
				}
			} else if c.swallow && !lastIsReturn(b) {
				cur = exitAfter.clone()
			}
			var atoms []*atom
			for _, n := range b.Nodes {
				atoms = append(atoms, fl.atoms(fs, n, depth)...)
			}
			// atoms after a return / never-returning call are dead
			for i, a := range atoms {
				if (a.noret && !a.maybe && a.lit == nil) || a.isReturn {
					atoms = atoms[:i+1]
					break
				}
			}
			for i := len(atoms) - 1; i >= 0; i-- {
				a := atoms[i]
				if a.isReturn {
					cur = exitAfter.clone()
					if !cur.top {
						for l := range res.retDefer[a.node] {
							cur.s[l] = true
						}
					}
				}
				if a.noret && !a.maybe && a.lit == nil {
					if c.swallow {
						cur = exitAfter.clone()
					} else {
						cur = bst{top: true}
					}
				}
				if a.lit != nil {
					if a.maybe {
						if record {
							fl.backward(a.lit, cur, depth, res, true)
						}
						continue
					}
					cur = fl.backward(a.lit, cur, depth, res, record)
					continue
				}
				if record {
					for _, l := range append(append([]string{}, a.gen...), a.via...) {
						if s := res.siteIdx[siteKey{a.node, l}]; s != nil && s.Fn == fs {
							if cur.top {
								s.After = Set{"*": true} // no normal path from here
							} else {
								s.After = cur.s.clone()
							}
						}
					}
					if a.deferLit != nil {
						fl.backward(a.deferLit, bst{s: Set{}}, depth, res, true)
					}
				}
				if !a.maybe && !cur.top {
					ns := cur.s.clone()
					for _, l := range a.gen {
						ns[l] = true
					}
					for _, l := range a.via {
						ns[l] = true
					}
					cur = bst{s: ns}
				}
			}
			if !(cur.top == startS[bi].top && (cur.top || cur.s.equal(startS[bi].s))) {
				startS[bi] = cur
				changed = true
			}
		}
		return changed
	}
	for i := 0; run(false); i++ {
		if i > 200 {
			panic("flow: no backward fixpoint in " + fs.name)
		}
	}
	if record {
		run(true)
	}
	return startS[0]
}

// Analyze runs both passes on a declared function (or literal) and returns the sites.
func (fl *Flow) Analyze(fs *FuncSrc) *Result {
	fl.init()
	res := &Result{Fn: fs, siteIdx: map[siteKey]*Site{}, retDefer: map[ast.Node]Set{}}
	if fs == nil || fs.Body == nil {
		res.Exit = topState()
		return res
	}
	res.Exit = fl.forward(fs, fstate{done: Set{}, deferred: Set{}}, fl.Depth, &recorder{res}, Set{})
	fl.backward(fs, bst{s: Set{}}, fl.Depth, res, true)
	for _, s := range res.Sites {
		if s.After == nil {
			s.After = Set{}
		}
	}
	sort.SliceStable(res.Sites, func(i, j int) bool { return res.Sites[i].Node.Pos() < res.Sites[j].Node.Pos() })
	return res
}

// After reports whether label l must follow the site on all normal paths
// ("*" means no normal path leaves the site).
func (s *Site) Follows(ls ...string) bool {
	if s.After["*"] {
		return true
	}
	return s.After.HasAny(ls...)
}

// loopEdge classifies the edge b->s with respect to the loops of the function.
func (c *fnCFG) loopEdge(b, s *cfg.Block) (string, ast.Stmt) {
	switch s.Kind {
	case cfg.KindRangeLoop, cfg.KindForLoop, cfg.KindForPost:
		if c.bodyOf(s.Stmt)[b.Index] {
			if s.Kind == cfg.KindForLoop && b.Kind == cfg.KindForPost && b.Stmt == s.Stmt {
				return "", nil // post -> head: the iteration already ended at the edge into post
			}
			return "back", s.Stmt
		}
	case cfg.KindForBody:
		// `for { … }` without condition and post statement has no head block: the back edge
		// goes to the body block itself
		if fs, ok := s.Stmt.(*ast.ForStmt); ok && fs.Cond == nil && fs.Post == nil && c.bodyOf(s.Stmt)[b.Index] {
			return "back", s.Stmt
		}
	case cfg.KindRangeDone, cfg.KindForDone:
		if c.bodyOf(s.Stmt)[b.Index] {
			return "break", s.Stmt
		}
	}
	return "", nil
}

// bodyOf returns the blocks reachable from the body block of loop without passing
// through its head, post or done blocks.
func (c *fnCFG) bodyOf(loop ast.Stmt) map[int32]bool {
	if c.inBody == nil {
		c.inBody = map[ast.Stmt]map[int32]bool{}
	}
	if m, ok := c.inBody[loop]; ok {
		return m
	}
	m := map[int32]bool{}
	c.inBody[loop] = m
	var body *cfg.Block
	for _, b := range c.g.Blocks {
		if (b.Kind == cfg.KindRangeBody || b.Kind == cfg.KindForBody) && b.Stmt == loop {
			body = b
		}
	}
	if body == nil {
		return m
	}
	var walk func(b *cfg.Block)
	walk = func(b *cfg.Block) {
		if m[b.Index] {
			return
		}
		if b.Stmt == loop {
			switch b.Kind {
			case cfg.KindRangeLoop, cfg.KindForLoop, cfg.KindForPost, cfg.KindRangeDone, cfg.KindForDone:
				return
			}
		}
		m[b.Index] = true
		for _, s := range b.Succs {
			walk(s)
		}
	}
	walk(body)
	return m
}

package main

// C07.6 – C07.8, added after the fifth round of seeded changes.

import (
	"fmt"
	"go/ast"
	"go/constant"
	"go/token"
	"go/types"
	"strings"
)

// checkSpecFieldsSignAware (C07.6): the field numbers of an ixkey.Spec are negative for
// `_lower!` columns (-n-2); Record.GetRaw answers "" for a negative number.  Wherever an
// element of Spec.Fields / Fields2 reaches a Record accessor, its sign has been looked at.
func checkSpecFieldsSignAware(c *Ctx, rule string) {
	p := c.P
	fieldsF := p.Field("db19/index/ixkey", "Spec", "Fields")
	fields2F := p.Field("db19/index/ixkey", "Spec", "Fields2")
	recT := p.NamedType("core", "Record")
	_ = fields2F
	if !c.need(rule, "ixkey.Spec.Fields", fieldsF) || !c.need(rule, "core.Record", recT) {
		return
	}
	n := 0
	for _, fs := range p.AllSrcs {
		if fs.Body == nil || fs.Lit != nil {
			continue
		}
		info := fs.Info()
		defs := buildDefs(fs)
		fromSpec := func(e ast.Expr) bool {
			return defs.Mentions(info, e, func(nd ast.Node) bool {
				x, ok := nd.(ast.Expr)
				if !ok {
					return false
				}
				f := FieldOf(info, x)
				return f != nil && f == fieldsF // Fields2 (the key fields appended for unique indexes) is documented never to hold _lower! columns
			})
		}
		ast.Inspect(fs.Body, func(nd ast.Node) bool {
			call, ok := nd.(*ast.CallExpr)
			if !ok || len(call.Args) != 1 {
				return true
			}
			cal := Callee(info, call)
			if cal == nil {
				return true
			}
			sig, _ := cal.Type().(*types.Signature)
			if sig == nil || sig.Recv() == nil || c17NamedOf(sig.Recv().Type()) != recT {
				return true
			}
			id := identOf(call.Args[0])
			if id == nil || !fromSpec(id) {
				return true
			}
			v := info.ObjectOf(id)
			// a comparison of that variable with 0 earlier in the function
			aware := false
			ast.Inspect(fs.Body, func(m ast.Node) bool {
				be, ok := m.(*ast.BinaryExpr)
				if !ok || be.Pos() > call.Pos() {
					return true
				}
				switch be.Op {
				case token.LSS, token.GEQ, token.GTR, token.LEQ:
				default:
					return true
				}
				for _, pr := range [][2]ast.Expr{{be.X, be.Y}, {be.Y, be.X}} {
					if x := identOf(pr[0]); x != nil && info.ObjectOf(x) == v {
						if k := ConstVal(info, pr[1]); k != nil && k.Kind() == constant.Int && constant.Sign(k) == 0 {
							aware = true
						}
					}
				}
				return true
			})
			n++
			c.Obl(rule, fs.name+": an index field number is used as a record field number only after its sign was examined", p.Pos(call), aware,
				"Record."+cal.Name()+" is called with an element of Spec.Fields that may be negative (a _lower! column): the accessor answers \"\" and the value is taken to be empty")
			return true
		})
	}
	c.Floor(rule, n, 1, "record accesses by index field number")
}

// checkUniqueIndexEmptyFold (C07.8): uniqueIndexEmpty answers true exactly when all fields of
// the index are empty (folded for an index of two fields, each empty or not).
func checkUniqueIndexEmptyFold(c *Ctx, rule string) {
	p := c.P
	fs := c.function(rule, "db19", "uniqueIndexEmpty")
	fieldsF := p.Field("db19/index/ixkey", "Spec", "Fields")
	if fs == nil || !c.need(rule, "ixkey.Spec.Fields", fieldsF) {
		return
	}
	info := fs.Info()
	var bad []string
	for mask := 0; mask < 4; mask++ {
		vals := map[int64]string{7: "", 9: ""}
		if mask&1 != 0 {
			vals[7] = "x"
		}
		if mask&2 != 0 {
			vals[9] = "y"
		}
		env := &AbsEnv{Info: info, Locals: map[types.Object]constant.Value{}}
		env.RangeOver = func(e ast.Expr) ([]constant.Value, bool) {
			if FieldOf(info, e) == fieldsF {
				return []constant.Value{constant.MakeInt64(7), constant.MakeInt64(9)}, true
			}
			return nil, false
		}
		env.AtomEnv = func(en *AbsEnv, e ast.Expr) (constant.Value, bool) {
			call, ok := e.(*ast.CallExpr)
			if !ok || len(call.Args) != 1 {
				return nil, false
			}
			if sel, ok := call.Fun.(*ast.SelectorExpr); ok && sel.Sel.Name == "GetRaw" {
				v := en.expr(call.Args[0])
				if v == nil {
					return nil, true
				}
				k, _ := constant.Int64Val(v)
				s, known := vals[k]
				if !known {
					return nil, true
				}
				return constant.MakeString(s), true
			}
			return nil, false
		}
		r := env.run(fs.Body)
		want := mask == 0
		if r.Unknown != "" || len(r.Returns) != 1 || r.Returns[0] == nil || r.Returns[0].Kind() != constant.Bool {
			bad = append(bad, "cannot be folded "+r.Unknown)
			break
		}
		if constant.BoolVal(r.Returns[0]) != want {
			bad = append(bad, fmt.Sprintf("fields (%q, %q): answers %v", vals[7], vals[9], !want))
		}
	}
	c.Obl(rule, "uniqueIndexEmpty is true exactly when every field of the index is empty", p.Pos(fs.Decl), len(bad) == 0,
		strings.Join(bad, "; ")+": a partly empty value of a composite unique index skips the duplicate check")
}

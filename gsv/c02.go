package main

import (
	"fmt"
	"go/ast"
	"go/token"
	"go/types"
	"os"
	"sort"
	"strings"
)

func init() { register("C02", checkC02) }

// dbImmut configures the immutability engine with the shared sources of the database:
// what they return is reachable from a published DbState (or is the storage itself).
type dbSources struct {
	eng                                   *Immut
	getState, shGet, stateAsof            *types.Func
	getRoInfo, getRoSchema, tables, infos *types.Func
	hGet, hMustGet, hAll, hget            *types.Func
	data, alloc                           *types.Func
	updState, updStateInner               *types.Func
}

func newDbImmut(c *Ctx, rule string, withStor bool) *dbSources {
	return newDbImmutMode(c, rule, withStor, true)
}

// newDbImmutMode: withDb=false configures only the sources of util/hamt and db19/meta
// (for checks that do not load package db19).
func newDbImmutMode(c *Ctx, rule string, withStor, withDb bool) *dbSources {
	p := c.P
	s := &dbSources{eng: NewImmut(p)}
	s.getRoInfo = p.DeclaredMethod("db19/meta", "Meta", "GetRoInfo")
	s.getRoSchema = p.DeclaredMethod("db19/meta", "Meta", "GetRoSchema")
	s.tables = p.DeclaredMethod("db19/meta", "Meta", "Tables")
	s.infos = p.DeclaredMethod("db19/meta", "Meta", "Infos")
	s.hGet = p.DeclaredMethod("util/hamt", "Hamt", "Get")
	s.hMustGet = p.DeclaredMethod("util/hamt", "Hamt", "MustGet")
	s.hAll = p.DeclaredMethod("util/hamt", "Hamt", "All")
	s.hget = p.DeclaredMethod("util/hamt", "Hamt", "get")
	s.data = p.DeclaredMethod("db19/stor", "Stor", "Data")
	s.alloc = p.DeclaredMethod("db19/stor", "Stor", "Alloc")
	anchors := map[string]*types.Func{
		"meta.Meta.GetRoInfo": s.getRoInfo, "meta.Meta.GetRoSchema": s.getRoSchema, "meta.Meta.Tables": s.tables, "meta.Meta.Infos": s.infos,
		"hamt.Hamt.Get": s.hGet, "hamt.Hamt.MustGet": s.hMustGet, "hamt.Hamt.All": s.hAll, "hamt.Hamt.get": s.hget,
		"stor.Stor.Data": s.data, "stor.Stor.Alloc": s.alloc}
	if withDb {
		s.getState = p.DeclaredMethod("db19", "Database", "GetState")
		s.shGet = p.DeclaredMethod("db19", "stateHolder", "get")
		s.stateAsof = p.Func("db19", "StateAsof")
		s.updState = p.DeclaredMethod("db19", "Database", "UpdateState")
		s.updStateInner = p.DeclaredMethod("db19", "stateHolder", "updateState")
		for n, f := range map[string]*types.Func{"db19.Database.GetState": s.getState, "db19.stateHolder.get": s.shGet, "db19.StateAsof": s.stateAsof,
			"db19.Database.UpdateState": s.updState, "db19.stateHolder.updateState": s.updStateInner} {
			anchors[n] = f
		}
	}
	ok := true
	for n, f := range anchors {
		if !c.need(rule, n, f) {
			ok = false
		}
	}
	if !ok {
		return nil
	}
	e := s.eng
	if withDb {
		e.Sources[s.getState] = imSource{"Database.GetState", 0}
		e.Sources[s.shGet] = imSource{"stateHolder.get", 0}
		e.Sources[s.stateAsof] = imSource{"StateAsof", 0}
		cb := &imSource{"UpdateState callback state", 1}
		e.CbParam = func(callee *types.Func, arg int) *imSource {
			if arg == 0 && (sameFunc(callee, s.updState) || sameFunc(callee, s.updStateInner)) {
				return cb
			}
			return nil
		}
	}
	e.Sources[s.getRoInfo] = imSource{"Meta.GetRoInfo", 0}
	e.Sources[s.getRoSchema] = imSource{"Meta.GetRoSchema", 0}
	e.Sources[s.tables] = imSource{"Meta.Tables", 1}
	e.Sources[s.infos] = imSource{"Meta.Infos", 1}
	e.Sources[s.hGet] = imSource{"Hamt.Get", 0}
	e.Sources[s.hMustGet] = imSource{"Hamt.MustGet", 0}
	e.Sources[s.hAll] = imSource{"Hamt.All", 1}
	e.Sources[s.hget] = imSource{"Hamt.get", 0}
	if withStor {
		e.Sources[s.data] = imSource{"Stor.Data", 0}
	}
	// Alloc returns Data(offset)[:n:n] of the range it has just reserved: the one writable slice
	e.Clean[s.alloc] = true
	return s
}

func isSourceOrigin(o string) bool { return strings.HasPrefix(o, "s:") }

// an exception of the K12 rule: one named function, the origins it may write, and why
type imException struct {
	fn      string
	callee  string // the sink: "" = any store, else the display name of the called mutator
	origin  string // origin substring that is tolerated
	reason  string
	matched int
}

func checkC02(c *Ctx) string {
	p := c.P
	r2 := "C02.2 K12 no write through a value obtained from a published state"
	src := newDbImmut(c, r2, true)
	if src == nil {
		return "anchors missing"
	}
	checkC02Publication(c, src)
	eng := src.eng
	if rf := p.Func("db19/meta", "replace"); c.need(r2, "meta.replace", rf) {
		// frozen: replace clones its argument before the first element store, guarded by the
		// boolean 'cloned' (a correlation a must-analysis cannot follow); shape checked below
		eng.NoMut[rf] = "copy on first write"
		checkReplaceShape(c, r2, rf)
	}
	eng.Solve(nil)
	c.Stats["immut_rounds"] = eng.Rounds
	if os.Getenv("GSV_IMDEBUG") != "" {
		imDump(eng)
	}

	// ---- 2 + 5: no write through shared values, anywhere in the module
	exceptions := []*imException{
		{fn: "db19/meta.linkFkeys", origin: "Hamt.", reason: "called only by ReadMeta on the Meta it has just read: not yet shared (K3 below)"},
		{fn: "db19.(*Database).Ensure", callee: "copy", origin: "Meta.GetRoInfo", reason: "GetRoInfo on the Meta just produced by Meta.Ensure in the same callback: its Info and Indexes are fresh copies (shape checked)"},
		{fn: "db19.(*Database).AlterCreate", callee: "copy", origin: "Meta.GetRoInfo", reason: "GetRoInfo on the Meta just produced by Meta.AlterCreate in the same callback: its Info and Indexes are fresh copies (shape checked)"},
		{fn: "db19.(*Database).PersistSync", callee: "db19/meta.(*Meta).ResetClock", origin: "Database.GetState", reason: "test-only: reached only from the synchronous test checker (*Check).Stop (K3 below)"},
		{fn: "db19/tools.Compact", callee: "db19.(*DbState).Write|db19/tools.compactTable", origin: "", reason: "offline tool: source (opened read-only) and destination databases are private to the compaction, each worker owns one table's Schema, the state is written after the workers are joined"},
		{fn: "db19/tools.LoadDatabase", callee: "db19.(*DbState).Write", origin: "Database.GetState", reason: "offline tool: the temporary database is private to the load and quiescent (workers joined) when its state is written"},
		{fn: "db19/tools.LoadTable", callee: "db19.(*DbState).Write", origin: "Database.GetState", reason: "offline tool (-load <table>): the database was opened by this function, has no checker and no other user"},
	}
	var fns []*FuncSrc
	for _, fs := range p.AllSrcs {
		if fs.Lit == nil && fs.Body != nil && fs.Obj != nil {
			fns = append(fns, fs)
		}
	}
	sort.Slice(fns, func(i, j int) bool { return fns[i].name < fns[j].name })
	nUsers, nStor := 0, 0
	r5 := "C02.5 K16 storage is append-only: no write into bytes obtained from Stor.Data"
	for _, fs := range fns {
		f := eng.funcOf(fs)
		if !f.usesSource && !f.derivedUser() {
			continue
		}
		hits := eng.Hits(fs, isSourceOrigin)
		var bad, badStor []string
		var pos, posStor string
		for _, h := range hits {
			var rest []string
			for _, o := range h.Origins {
				if exc := matchException(exceptions, fs, h, o, eng); exc != nil {
					exc.matched++
					continue
				}
				rest = append(rest, o)
			}
			if len(rest) == 0 {
				continue
			}
			h.Origins = rest
			isStor := false
			for _, o := range rest {
				if o == "s:Stor.Data" {
					isStor = true
				}
			}
			if isStor {
				badStor = append(badStor, eng.describe(h))
				posStor = p.Pos(h.Sink.node)
			} else {
				bad = append(bad, eng.describe(h))
				pos = p.Pos(h.Sink.node)
			}
		}
		usesStor := f.callsAny(src.data)
		if usesStor {
			nStor++
			if posStor == "" {
				posStor = p.Pos(fs.Decl)
			}
			c.Obl(r5, fs.name, posStor, len(badStor) == 0, strings.Join(badStor, "; ")+ifs(len(badStor) > 0, ": committed records, index nodes and states are rewritten in place under readers that hold older snapshots"))
		}
		if !usesStor || f.usesOther(src.data) || len(bad) > 0 {
			nUsers++
			if pos == "" {
				pos = p.Pos(fs.Decl)
			}
			c.Obl(r2, fs.name, pos, len(bad) == 0, strings.Join(bad, "; ")+ifs(len(bad) > 0, ": the change is visible to transactions that started on an earlier snapshot"))
		}
	}
	c.Floor(r2, nUsers, 60, "functions that use a value of a published state")
	c.Floor(r5, nStor, 15, "functions that read storage through Stor.Data")
	for _, exc := range exceptions {
		c.Obl(r2+" (frozen exception still needed)", exc.fn, "", exc.matched > 0,
			"the exception no longer matches a write in "+exc.fn+": remove it ("+exc.reason+")")
	}
	// the exceptions rest on who calls these functions
	c.Callers(r2+" (exception linkFkeys: only on a Meta that is not shared yet)", []*types.Func{p.Func("db19/meta", "linkFkeys")}, []string{"db19/meta.ReadMeta"}, 1)
	c.Callers(r2+" (exception PersistSync: test checker only)", []*types.Func{p.DeclaredMethod("db19", "Database", "PersistSync")}, []string{"db19.(*Check).Stop"}, 1)
	c.Callers(r2+" (exception ResetClock: test only)", []*types.Func{p.DeclaredMethod("db19/meta", "Meta", "ResetClock")}, []string{"db19.(*Database).PersistSync"}, 1)

	// the by-effect summaries must still recognise the known mutators and copy points
	rs := "C02.2 K12 self-check of the by-effect summaries"
	for _, m := range []struct {
		pkg, typ, name string
		param          int
	}{
		{"db19/index", "Overlay", "Insert", -1}, {"db19/index", "Overlay", "Delete", -1}, {"db19/index", "Overlay", "Update", -1},
		{"db19/index", "Overlay", "UpdateWith", -1}, {"db19/index/ixbuf", "ixbuf", "Insert", -1},
		{"db19/meta", "Meta", "GetRwInfo", -1}, {"db19/meta", "Meta", "Write", -1}, {"db19/meta", "Meta", "ResetClock", -1},
		{"db19/meta", "Info", "SetLastMod", -1}, {"db19/meta", "Schema", "Ixspecs", -1}, {"db19", "DbState", "Write", -1},
		{"util/hamt", "Hamt", "Put", -1}, {"util/hamt", "Hamt", "Delete", -1},
		{"db19/meta", "Meta", "Put", 0}, {"db19/meta", "Meta", "Put", 1},
	} {
		fn := p.DeclaredMethod(m.pkg, m.typ, m.name)
		if !c.need(rs, m.pkg+"."+m.typ+"."+m.name, fn) {
			continue
		}
		c.Obl(rs, fmt.Sprintf("%s writes through parameter %d", funcName(fn), m.param), p.Pos(p.Src(fn).Decl), eng.Mutates(fn, m.param) != nil,
			"the effect analysis no longer sees that this function modifies what it is given: calls of it on shared values would go unnoticed")
	}
	for _, m := range []struct{ pkg, typ, name string }{
		{"db19/meta", "Meta", "Mutable"}, {"db19/index", "Overlay", "Mutable"}, {"util/hamt", "Hamt", "Mutable"}, {"util/hamt", "node", "dup"},
		{"db19/meta", "Meta", "GetRwInfo"}, {"db19/meta", "metaUpdate", "getSchema"}, {"db19/meta", "Meta", "alterGet"},
		{"db19/meta", "Meta", "LayeredOnto"}, {"db19/meta", "Meta", "Put"}, {"db19/index", "Overlay", "WithMerged"}, {"db19/index", "Overlay", "WithSaved"},
	} {
		fn := p.DeclaredMethod(m.pkg, m.typ, m.name)
		if !c.need(rs, m.pkg+"."+m.typ+"."+m.name, fn) {
			continue
		}
		why := eng.Mutates(fn, -1)
		pure := m.name != "GetRwInfo" && m.name != "getSchema" && m.name != "LayeredOnto" // these update their receiver's private part by design
		okc := true
		for _, en := range eng.ret[fn.Origin()] {
			if isSourceOrigin(en.o) || (pure && m.name != "Put") {
				okc = false
			}
		}
		if pure && why != nil {
			okc = false
		}
		d := ""
		if !okc {
			d = fmt.Sprintf("a copy point must return memory of its own and leave its receiver alone; returns memory of %v", eng.ret[fn.Origin()].zero())
			if why != nil {
				d += "; writes through its receiver: " + why.What + " at " + why.Pos
			}
		}
		c.Obl(rs, funcName(fn)+" is a copy point", p.Pos(p.Src(fn).Decl), okc, d)
	}

	checkC02Immutable(c, eng)
	checkC02Ownership(c, src)

	checkLookupCacheBypass(c, "C02.10 K4c the join lookup cache is bypassed for update transactions")
	if simple := c.P.Func("db19/index", "NewSimpleIter"); c.need("C02.11 anchors", "index.NewSimpleIter", simple) {
		c.Callers("C02.11 K3 the iterator that does not see the transaction's own writes is created only for read transactions", []*types.Func{simple}, []string{"db19.(*ReadTran).IndexIter"}, 1)
	}
	checkTranReadsItsSnapshot(c, "C02.9 K3 a transaction reads the database only through its snapshot")
	return "Static immutability of published database state. Publication: stateHolder.state is stored only by set, set is called only by updateState/CreateDb/OpenDbStor, updateState holds the mutex " +
		"from before get to after set and passes the callback the address of a local copy which is what it publishes. K12 (AST-level distance-to-shared-memory analysis with by-effect mutator and " +
		"copy-point summaries over the whole module, refined by go/cfg reaching definitions): no field/element store, copy, delete, in-place append or call of a function that writes through its " +
		"parameter has a base that refers directly to memory obtained from GetState / stateHolder.get / StateAsof / Meta.GetRoInfo / GetRoSchema / Tables / Infos / Hamt.Get / MustGet / All, the state " +
		"passed to an UpdateState callback (one hop), or Stor.Data (append-only storage), except the frozen exceptions (meta.linkFkeys, Database.Ensure/AlterCreate on the Meta they have just built, test-only PersistSync/ResetClock, the offline tools Compact/LoadDatabase/LoadTable writing the state of a database they own; meta.replace is frozen as copy-on-first-write with its shape checked). Fields of @immutable types of db19 are " +
		"stored only on @allow-mutate lines; NewUpdateTran works on Meta.Mutable() of its start state. Not decided: aliasing that leaves the function through parameters " +
		"(a shallow copy handed to a helper that writes one level deeper, e.g. Meta.setFkeyIIndex), heap aliasing through containers beyond two hops, function values, reflection/unsafe."
}

func ifs(b bool, s string) string {
	if b {
		return s
	}
	return ""
}

// derivedUser: the function calls a function whose result is derived from a shared source.
func (f *imFunc) derivedUser() bool {
	for cal := range f.callees {
		for _, en := range f.eng.retOf(cal) {
			if isSourceOrigin(en.o) {
				return true
			}
		}
	}
	return false
}

func (f *imFunc) callsAny(fns ...*types.Func) bool {
	for cal := range f.callees {
		for _, g := range fns {
			if sameFunc(cal, g) {
				return true
			}
		}
	}
	return false
}

// usesOther: the function uses a source other than the given ones.
func (f *imFunc) usesOther(fns ...*types.Func) bool {
	for cal := range f.callees {
		skip := false
		for _, g := range fns {
			if sameFunc(cal, g) {
				skip = true
			}
		}
		if skip {
			continue
		}
		if _, ok := f.eng.Sources[cal]; ok {
			return true
		}
		for _, en := range f.eng.retOf(cal) {
			if isSourceOrigin(en.o) && en.o != "s:Stor.Data" {
				return true
			}
		}
	}
	for _, d := range f.defs {
		if d.cached.has("s:UpdateState callback state") {
			return true
		}
	}
	return false
}

func matchException(list []*imException, fs *FuncSrc, h imHit, origin string, eng *Immut) *imException {
	for _, x := range list {
		if x.fn != fs.name || !strings.Contains(origin, x.origin) {
			continue
		}
		okSink := x.callee == ""
		for _, cal := range strings.Split(x.callee, "|") {
			if cal == h.Sink.kind || (h.Sink.kind == "call" && h.Sink.what == cal) {
				okSink = true
			}
		}
		if !okSink {
			continue
		}
		if (fs.name == "db19.(*Database).Ensure" || fs.name == "db19.(*Database).AlterCreate") && !ensureShape(eng, fs, h) {
			continue
		}
		return x
	}
	return nil
}

// ensureShape: the written slice is ti.Indexes[..] where ti = m.GetRoInfo(..) and m is a local
// variable whose only definitions are results of Meta.Ensure / Meta.AlterCreate.
func ensureShape(eng *Immut, fs *FuncSrc, h imHit) bool {
	p := eng.P
	info := fs.Info()
	call, ok := h.Sink.node.(*ast.CallExpr)
	if !ok || len(call.Args) != 2 {
		return false
	}
	root := rootIdent(call.Args[0])
	if root == nil {
		return false
	}
	defs := buildDefs(fs)
	ensure := p.DeclaredMethod("db19/meta", "Meta", "Ensure")
	alter := p.DeclaredMethod("db19/meta", "Meta", "AlterCreate")
	getRo := p.DeclaredMethod("db19/meta", "Meta", "GetRoInfo")
	tiDefs := defs.defs[info.Uses[root]]
	if len(tiDefs) != 1 {
		return false
	}
	gc, ok := ast.Unparen(tiDefs[0]).(*ast.CallExpr)
	if !ok || !sameFunc(Callee(info, gc), getRo) {
		return false
	}
	sel, ok := ast.Unparen(gc.Fun).(*ast.SelectorExpr)
	if !ok {
		return false
	}
	mid, ok := ast.Unparen(sel.X).(*ast.Ident)
	if !ok {
		return false
	}
	mDefs := defs.defs[info.Uses[mid]]
	if len(mDefs) == 0 {
		return false
	}
	for _, d := range mDefs {
		dc, ok := ast.Unparen(d).(*ast.CallExpr)
		if !ok {
			return false
		}
		if cal := Callee(info, dc); !sameFunc(cal, ensure) && !sameFunc(cal, alter) {
			return false
		}
	}
	return true
}

func imDump(eng *Immut) {
	var names []string
	byName := map[string]*types.Func{}
	for fn := range eng.mut {
		n := funcName(fn)
		if strings.HasPrefix(n, "db19") || strings.HasPrefix(n, "util/hamt") {
			names = append(names, n)
			byName[n] = fn
		}
	}
	sort.Strings(names)
	for _, n := range names {
		for i, w := range eng.mut[byName[n]] {
			fmt.Printf("MUT %s param %d: %s at %s\n", n, i, w.What, w.Pos)
		}
	}
	names = nil
	for fn, t := range eng.ret {
		if len(t) > 0 {
			n := funcName(fn)
			if strings.HasPrefix(n, "db19") || strings.HasPrefix(n, "util/hamt") || strings.HasPrefix(n, "dbms") {
				names = append(names, fmt.Sprintf("RET %s: %v", n, t.zero()))
			}
		}
	}
	sort.Strings(names)
	for _, n := range names {
		fmt.Println(n)
	}
	fmt.Println("refined:", eng.NRefined, "flow analyses:", eng.NFlow, "rounds:", eng.Rounds)
}

// ---- 1. publication

func checkC02Publication(c *Ctx, src *dbSources) {
	p := c.P
	r1 := "C02.1 K2+K3+K4+K7 a state is published only by updateState, as a copy, under the mutex"
	stateF := p.Field("db19", "stateHolder", "state")
	mutexF := p.Field("db19", "stateHolder", "mutex")
	setFn := p.DeclaredMethod("db19", "stateHolder", "set")
	if !c.need(r1, "db19.stateHolder.state", stateF) || !c.need(r1, "db19.stateHolder.mutex", mutexF) || !c.need(r1, "db19.stateHolder.set", setFn) {
		return
	}
	c.Writers(r1, "stateHolder.state", nil, MethodOnField("", stateF, "Store", "Swap", "CompareAndSwap"), []string{"db19.(*stateHolder).set"}, 1)
	c.Writers(r1, "stateHolder.state (plain store)", nil, StoreTo("", true, stateF), []string{}, 0)
	c.Callers(r1, []*types.Func{setFn}, []string{"db19.(*stateHolder).updateState", "db19.CreateDb", "db19.OpenDbStor"}, 3)
	c.Callers(r1+" (updateState only through UpdateState)", []*types.Func{src.updStateInner}, []string{"db19.(*Database).UpdateState"}, 1)
	fs := c.src(r1, src.updStateInner, "db19.stateHolder.updateState")
	if fs == nil {
		return
	}
	info := fs.Info()
	fnParam := fs.Param(0)
	defs := buildDefs(fs)
	isCopyOfLoaded := func(v types.Object) bool {
		// v's only definition is *x with x derived from get()
		ds := defs.defs[v]
		if len(ds) != 1 {
			return false
		}
		st, ok := ast.Unparen(ds[0]).(*ast.StarExpr)
		return ok && defs.MentionsEv(fs, st.X, CallOf("", src.shGet))
	}
	addrOfCopy := func(e ast.Expr) types.Object {
		u, ok := ast.Unparen(e).(*ast.UnaryExpr)
		if !ok || u.Op != token.AND {
			return nil
		}
		id, ok := ast.Unparen(u.X).(*ast.Ident)
		if !ok {
			return nil
		}
		o := info.Uses[id]
		if o == nil || !isCopyOfLoaded(o) {
			return nil
		}
		return o
	}
	evCallback := Ev{"callback", func(f *FuncSrc, n ast.Node) bool {
		call, ok := n.(*ast.CallExpr)
		if !ok {
			return false
		}
		id, ok := ast.Unparen(call.Fun).(*ast.Ident)
		return ok && fnParam != nil && f.Info().Uses[id] == types.Object(fnParam)
	}}
	fl := &Flow{P: p, Node: Labeler(MethodOnField("lock", mutexF, "Lock"), MethodOnField("-lock", mutexF, "Unlock"),
		CallOf("get", src.shGet), CallOf("set", setFn), evCallback)}
	res := fl.Analyze(fs)
	c.RequireBefore(r1, res, "get", 1, "lock")
	c.RequireBefore(r1, res, "callback", 1, "lock")
	c.RequireBefore(r1, res, "set", 1, "lock")
	c.RequireBefore(r1+" (read-copy-update order)", res, "callback", 1, "get")
	c.RequireBefore(r1+" (read-copy-update order)", res, "set", 1, "callback")
	// the lock is released only by a deferred Unlock (a plain Unlock before set would kill "lock")
	nDefer := 0
	ForEachNode(fs, func(n ast.Node) {
		if d, ok := n.(*ast.DeferStmt); ok {
			if sel, ok := ast.Unparen(d.Call.Fun).(*ast.SelectorExpr); ok && sel.Sel.Name == "Unlock" && FieldOf(info, sel.X) == mutexF {
				nDefer++
			}
		}
	})
	c.Obl(r1, "updateState releases the mutex at exit", p.Pos(fs.Decl), nDefer == 1 || len(res.Of("-lock")) > 0, "the state mutex is never released")
	var cbObj, setObj types.Object
	for _, s := range res.Of("callback") {
		call := s.Node.(*ast.CallExpr)
		if len(call.Args) == 1 {
			cbObj = addrOfCopy(call.Args[0])
		}
		c.Obl(r1, "the callback receives the address of a local copy of the loaded state", p.Pos(call), cbObj != nil,
			"the update function is given "+exprStr(callArg(call, 0))+", not &copy where copy := *<loaded state>: it would modify the published state in place, under running transactions")
	}
	for _, s := range res.Of("set") {
		call := s.Node.(*ast.CallExpr)
		if len(call.Args) == 1 {
			setObj = addrOfCopy(call.Args[0])
		}
		c.Obl(r1, "the published state is the copy the callback updated", p.Pos(call), setObj != nil && setObj == cbObj,
			"set is given "+exprStr(callArg(call, 0))+", which is not the address of the copy passed to the update function: the update is lost or the old state is re-published")
	}
	// get() is the atomic load of the same field that set stores
	if g := c.src(r1, src.shGet, "db19.stateHolder.get"); g != nil {
		n := len(p.FuncsWith(nil, MethodOnField("", stateF, "Load"))[g])
		c.Obl(r1, "stateHolder.get loads the published pointer", p.Pos(g.Decl), n >= 1, "get no longer returns state.Load()")
	}
}

// ---- 3. @immutable

func checkC02Immutable(c *Ctx, eng *Immut) {
	p := c.P
	r3 := "C02.3 K12 fields of @immutable types are stored only on @allow-mutate lines"
	// types of db19/... whose doc comment carries @immutable
	immutable := map[*types.TypeName]bool{}
	allow := map[string]bool{} // file:line with @allow-mutate
	for _, pk := range p.Pkgs {
		for _, file := range pk.Syntax {
			for _, cg := range file.Comments {
				for _, cm := range cg.List {
					if strings.Contains(cm.Text, "@allow-mutate") {
						ps := p.Fset.Position(cm.Pos())
						allow[fmt.Sprintf("%s:%d", ps.Filename, ps.Line)] = true
					}
				}
			}
			if !strings.HasPrefix(pkgShort(pk.PkgPath), "db19") {
				continue
			}
			for _, d := range file.Decls {
				gd, ok := d.(*ast.GenDecl)
				if !ok || gd.Tok != token.TYPE {
					continue
				}
				for _, sp := range gd.Specs {
					ts := sp.(*ast.TypeSpec)
					doc := ts.Doc
					if doc == nil && len(gd.Specs) == 1 {
						doc = gd.Doc
					}
					if doc == nil {
						continue
					}
					for _, cm := range doc.List {
						if strings.Contains(cm.Text, "@immutable") {
							if tn, ok := pk.TypesInfo.Defs[ts.Name].(*types.TypeName); ok {
								immutable[tn] = true
							}
						}
					}
				}
			}
		}
	}
	c.Floor(r3, len(immutable), 1, "@immutable types in db19 (index.Overlay)")
	fields := map[*types.Var]*types.TypeName{}
	for tn := range immutable {
		if st, ok := tn.Type().Underlying().(*types.Struct); ok {
			for i := 0; i < st.NumFields(); i++ {
				fields[st.Field(i)] = tn
			}
		}
	}
	nAllowed := 0
	for _, fs := range p.AllSrcs {
		if fs.Lit != nil || fs.Body == nil {
			continue
		}
		info := fs.Info()
		ForEachNode(fs, func(n ast.Node) {
			var lhs []ast.Expr
			switch s := n.(type) {
			case *ast.AssignStmt:
				lhs = s.Lhs
			case *ast.IncDecStmt:
				lhs = []ast.Expr{s.X}
			default:
				return
			}
			for _, l := range lhs {
				fld := lhsField(info, l, true)
				tn := fields[fld]
				if fld == nil || tn == nil {
					continue
				}
				// a store into a local value of the type (not through a pointer) builds a new value
				f := eng.funcOf(fs)
				if base, _, _, _ := f.lvalue(l, false); base == nil {
					continue
				}
				ps := p.Fset.Position(n.Pos())
				ok := allow[fmt.Sprintf("%s:%d", ps.Filename, ps.Line)]
				if ok {
					nAllowed++
				}
				c.Obl(r3, fs.name+": store to "+tn.Name()+"."+fld.Name(), p.Pos(n), ok,
					"field "+fld.Name()+" of the @immutable type "+tn.Name()+" is assigned through a pointer on a line without // @allow-mutate: overlays are shared between snapshots, the change is seen by running transactions")
			}
		})
	}
	c.Floor(r3, nAllowed, 3, "@allow-mutate stores (Overlay.UpdateWith)")
	// the tolerated stores are applied to the transaction's own overlays only: UpdateWith is called only by LayeredOnto
	if uw := p.DeclaredMethod("db19/index", "Overlay", "UpdateWith"); c.need(r3, "index.Overlay.UpdateWith", uw) {
		c.Callers(r3+" (UpdateWith only from LayeredOnto)", []*types.Func{uw}, []string{"db19/meta.(*Meta).LayeredOnto"}, 1)
	}
}

// ---- 4. ownership

func checkC02Ownership(c *Ctx, src *dbSources) {
	p := c.P
	r4 := "C02.4 K11 an update transaction works on a private, mutable view of its start state"
	nut := c.method(r4, "db19", "Database", "NewUpdateTran")
	metaMutable := p.DeclaredMethod("db19/meta", "Meta", "Mutable")
	metaF := p.Field("db19", "tran", "meta")
	stateMeta := p.Field("db19", "DbState", "Meta")
	ctState := p.Field("db19", "CkTran", "state")
	if nut == nil || !c.need(r4, "meta.Meta.Mutable", metaMutable) || !c.need(r4, "db19.tran.meta", metaF) ||
		!c.need(r4, "db19.DbState.Meta", stateMeta) || !c.need(r4, "db19.CkTran.state", ctState) {
		return
	}
	defs := buildDefs(nut)
	info := nut.Info()
	n := 0
	ForEachNode(nut, func(nd ast.Node) {
		kv, ok := nd.(*ast.KeyValueExpr)
		if !ok {
			return
		}
		id, ok := kv.Key.(*ast.Ident)
		if !ok || info.Uses[id] != types.Object(metaF) {
			return
		}
		n++
		viaMutable := false
		var mcall *ast.CallExpr
		defs.Mentions(info, kv.Value, func(m ast.Node) bool {
			if call, ok := m.(*ast.CallExpr); ok && sameFunc(Callee(info, call), metaMutable) {
				viaMutable = true
				mcall = call
			}
			return false
		})
		direct := false
		if !viaMutable {
			direct = true
		}
		c.Obl(r4, "NewUpdateTran: the transaction's meta is Meta.Mutable() of a state", p.Pos(kv), viaMutable && !direct,
			"the update transaction's meta is not the result of Meta.Mutable(): GetRwInfo would record its private Infos in (or the transaction would write into) the shared Meta")
		if mcall != nil {
			sel, _ := ast.Unparen(mcall.Fun).(*ast.SelectorExpr)
			fromStart := sel != nil && FieldOf(info, sel.X) == stateMeta && func() bool {
				s2, ok := ast.Unparen(sel.X).(*ast.SelectorExpr)
				return ok && FieldOf(info, s2.X) == ctState
			}()
			c.Obl(r4, "NewUpdateTran: the snapshot is the state the checker recorded at StartTran", p.Pos(mcall), fromStart,
				"Mutable() is not taken from ct.state.Meta: the snapshot the transaction reads differs from the one the checker validates it against")
		}
	})
	c.Floor(r4, n, 1, "tran.meta initialisers in NewUpdateTran")
	// read transactions take the published Meta as is
	if nrt := c.method(r4, "db19", "Database", "NewReadTran"); nrt != nil {
		ok := false
		d := buildDefs(nrt)
		ForEachNode(nrt, func(nd ast.Node) {
			if kv, isKv := nd.(*ast.KeyValueExpr); isKv {
				if id, isId := kv.Key.(*ast.Ident); isId && nrt.Info().Uses[id] == types.Object(metaF) {
					ok = d.MentionsEv(nrt, kv.Value, CallOf("", src.getState)) && FieldOf(nrt.Info(), kv.Value) == stateMeta
				}
			}
		})
		c.Obl(r4, "NewReadTran: the transaction's meta is GetState().Meta, loaded once", p.Pos(nrt.Decl), ok,
			"a read transaction does not pin the Meta of one atomically loaded state")
	}
	// GetRwInfo: the private copy is registered in difInfo, and its overlays are Mutable() copies
	if g := c.method(r4, "db19/meta", "Meta", "GetRwInfo"); g != nil {
		ovMutable := p.DeclaredMethod("db19/index", "Overlay", "Mutable")
		difInfo := p.Field("db19/meta", "Meta", "difInfo")
		if c.need(r4, "index.Overlay.Mutable", ovMutable) && c.need(r4, "meta.Meta.difInfo", difInfo) {
			fl := &Flow{P: p, Node: Labeler(CallOf("ov.Mutable", ovMutable), StoreTo("difInfo[]=", true, difInfo))}
			res := fl.Analyze(g)
			nret := 0
			for _, r := range res.Returns {
				if len(r.Node.Results) != 1 {
					continue
				}
				if u, ok := ast.Unparen(r.Node.Results[0]).(*ast.UnaryExpr); ok && u.Op == token.AND {
					nret++
					c.Obl(r4, "GetRwInfo: a fresh copy is registered in difInfo before it is returned", p.Pos(r.Node), r.Before.Has("difInfo[]="),
						"the private Info is returned without being recorded: a second GetRwInfo makes another copy and the first writes are lost at commit")
				}
			}
			c.Floor(r4, nret, 1, "returns of a fresh copy in GetRwInfo")
			nMut := len(res.Of("ov.Mutable"))
			if nMut == 0 {
				// a helper extracted one level
				ForEachNode(g, func(n ast.Node) {
					if call, ok := n.(*ast.CallExpr); ok {
						if h := p.Src(Callee(g.Info(), call)); h != nil && h != g {
							nMut += len(p.CallsIn(h, ovMutable))
						}
					}
				})
			}
			c.Obl(r4, "GetRwInfo: every overlay of the copy is replaced by Overlay.Mutable()", p.Pos(g.Decl), nMut >= 1,
				"the copy keeps the shared read-only overlays (mut == nil): Insert/Delete/Update on them panic or write shared buffers")
		}
	}
}

// checkReplaceShape: in meta.replace every element store into the parameter is preceded, in the
// same block, by the guarded clone  if !cloned { list = slc.Clone(list); cloned = true }.
func checkReplaceShape(c *Ctx, rule string, rf *types.Func) {
	p := c.P
	fs := p.Src(rf)
	if fs == nil || fs.Body == nil {
		c.Missing(rule, "meta.replace (no source)")
		return
	}
	info := fs.Info()
	list := fs.Param(0)
	clone := p.Func("util/slc", "Clone")
	par := parentMap(fs.Body)
	n := 0
	ForEachNode(fs, func(nd ast.Node) {
		as, ok := nd.(*ast.AssignStmt)
		if !ok || len(as.Lhs) != 1 {
			return
		}
		ix, ok := ast.Unparen(as.Lhs[0]).(*ast.IndexExpr)
		if !ok {
			return
		}
		id, ok := ast.Unparen(ix.X).(*ast.Ident)
		if !ok || info.Uses[id] != types.Object(list) {
			return
		}
		n++
		// the statement just before, in the same block, is the guarded clone
		blk, _ := par[as].(*ast.BlockStmt)
		ok = false
		if blk != nil {
			for i, st := range blk.List {
				if st != ast.Stmt(as) || i == 0 {
					continue
				}
				if ifs, isIf := blk.List[i-1].(*ast.IfStmt); isIf && ifs.Else == nil {
					un, isNot := ast.Unparen(ifs.Cond).(*ast.UnaryExpr)
					if !isNot || un.Op != token.NOT {
						continue
					}
					flag, isId := ast.Unparen(un.X).(*ast.Ident)
					if !isId {
						continue
					}
					cloned, setFlag := false, false
					for _, s2 := range ifs.Body.List {
						if a2, isAs := s2.(*ast.AssignStmt); isAs && len(a2.Lhs) == 1 && len(a2.Rhs) == 1 {
							if l, isId := a2.Lhs[0].(*ast.Ident); isId {
								if info.Uses[l] == types.Object(list) {
									if call, isCall := ast.Unparen(a2.Rhs[0]).(*ast.CallExpr); isCall && sameFunc(Callee(info, call), clone) {
										cloned = true
									}
								}
								if info.Uses[l] == info.Uses[flag] {
									if v := ConstVal(info, a2.Rhs[0]); v != nil && v.String() == "true" {
										setFlag = true
									}
								}
							}
						}
					}
					ok = cloned && setFlag
				}
			}
		}
		c.Obl(rule+" (frozen: meta.replace copies on first write)", "replace: element store preceded by the guarded clone", p.Pos(as), ok,
			"replace stores into its argument without the 'if !cloned { list = slc.Clone(list); cloned = true }' guard: AlterRename passes it slices of the published Schema")
	})
	c.Floor(rule+" (frozen: meta.replace copies on first write)", n, 1, "element stores in meta.replace")
}

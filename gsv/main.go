package main

import (
	"flag"
	"fmt"
	"os"
	"runtime/debug"
	"sort"
)

type checkFn func(c *Ctx) string // returns the explanation for the evidence file

type checkDef struct {
	fn       checkFn
	patterns []string // packages to load (nil = whole module)
}

var checks = map[string]checkDef{}

func register(id string, fn checkFn, patterns ...string) { checks[id] = checkDef{fn, patterns} }

func usage() {
	fmt.Fprintln(os.Stderr, "usage: gsv check <ID> [--tier quick|thorough] | gsv list")
	os.Exit(2)
}

func main() {
	if len(os.Args) < 2 {
		usage()
	}
	switch os.Args[1] {
	case "list":
		var ids []string
		for id := range checks {
			ids = append(ids, id)
		}
		sort.Strings(ids)
		for _, id := range ids {
			fmt.Println(id)
		}
	case "hoistconds":
		os.Exit(hoistCondsMain())
	case "flipifs":
		os.Exit(flipIfsMain())
	case "renamelocals":
		os.Exit(renameLocalsMain())
	case "shuffle":
		if len(os.Args) < 3 {
			usage()
		}
		os.Exit(shuffleMain(os.Args[2]))
	case "selftest":
		os.Exit(selftestMain(os.Args[2:]))
	case "check":
		if len(os.Args) < 3 {
			usage()
		}
		id := os.Args[2]
		fs := flag.NewFlagSet("check", flag.ExitOnError)
		tier := fs.String("tier", "quick", "quick|thorough")
		fs.Parse(os.Args[3:])
		if t := os.Getenv("VERIF_TIER"); t != "" && *tier == "" {
			*tier = t
		}
		def, ok := checks[id]
		if !ok {
			fmt.Fprintln(os.Stderr, "unknown check", id)
			os.Exit(2)
		}
		os.Exit(runCheck(id, *tier, def))
	default:
		usage()
	}
}

func runCheck(id, tier string, def checkDef) (code int) {
	c := NewCtx(id, tier)
	defer func() {
		if e := recover(); e != nil {
			infraFail(id, tier, fmt.Errorf("analyser panic: %v\n%s", e, debug.Stack()))
		}
	}()
	p, err := Load(LoadOpts{Patterns: def.patterns})
	if err != nil {
		infraFail(id, tier, err)
	}
	c.P = p
	expl := def.fn(c)
	c.Stats["configurations"] = 1
	if tier == "thorough" {
		// the same rules over the other build configuration that has its own source files
		// (GOOS=windows: db19/stor/mmap_windows.go, db19/filelock, builtin/*_windows.go …).
		// The gui configuration needs cgo (builtin/goc) and cannot be type-checked on this image.
		n := len(c.Obls)
		pw, err := Load(LoadOpts{Patterns: def.patterns, GOOS: "windows"})
		if err != nil {
			c.Obls = append(c.Obls, Obligation{Rule: id + ".cfg build configuration GOOS=windows type-checks", Key: id + ":cfg:windows", OK: false,
				Detail: "GOOS=windows does not load: " + err.Error(), Kind: "build-config"})
		} else {
			c.P = pw
			c.seen = map[string]int{}
			def.fn(c)
			for i := n; i < len(c.Obls); i++ {
				c.Obls[i].Key += " [GOOS=windows]"
				c.Obls[i].Rule += " [GOOS=windows]"
			}
			c.Stats["configurations"] = 2
			c.P = p
		}
		if os.Getenv("GSV_NO_SELFTEST") == "" {
			// sensitivity self-test of this check's rules (never an alarm about /repo)
			fired, silent, skipped, benignOK, benignBad, nb := 0, 0, 0, 0, 0, 0
			for _, r := range runSelftest([]string{id}, 8) {
				switch {
				case r.Status == "skipped" || r.Status == "infra":
					skipped++
					c.Note("selftest %s %s: %s", r.M.Name, r.Status, r.Detail)
				case r.M.Benign:
					nb++
					if r.Status == "silent" {
						benignOK++
					} else {
						benignBad++
						c.Note("selftest: behaviour-preserving variant %s made the check fire: %s", r.M.Name, r.Detail)
					}
				case r.Status == "fired" && r.Matched:
					fired++
				default:
					silent++
					c.Note("selftest: mutant %s not detected (%s)", r.M.Name, r.Status)
				}
			}
			c.Stats["selftest_mutants_detected"] = fired
			c.Stats["selftest_mutants_missed"] = silent
			c.Stats["selftest_variants_skipped"] = skipped
			c.Stats["selftest_benign_silent"] = benignOK
			c.Stats["selftest_benign_fired"] = benignBad
		}
		expl += " Thorough tier: the same rules were also decided on the GOOS=windows build configuration (separate source files for mmap, file locking and builtins); the gui configuration needs cgo and is not analysable here."
	}
	return c.Finish(expl)
}

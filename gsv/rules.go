package main

// Reusable rule kinds on top of the engine.

import (
	"fmt"
	"go/ast"
	"go/types"
	"sort"
	"strings"
)

func inList(s string, l []string) bool {
	for _, x := range l {
		if x == s {
			return true
		}
	}
	return false
}

// K2 WRITERS: every function containing an event ev is in allowed.
// allowed holds function display names (pkg.(*T).M).
func (c *Ctx) Writers(rule, what string, pkgs []string, ev Ev, allowed []string, floor int) {
	m := c.P.FuncsWith(pkgs, ev)
	var fns []*FuncSrc
	for fs := range m {
		fns = append(fns, fs)
	}
	sort.Slice(fns, func(i, j int) bool { return fns[i].name < fns[j].name })
	for _, fs := range fns {
		ok := inList(fs.name, allowed)
		d := ""
		if !ok {
			d = fmt.Sprintf("%s is written in %s, which is not one of the %d confirmed writers %v", what, fs.name, len(allowed), allowed)
		}
		c.Obl(rule, "writer "+what+" in "+fs.name, c.P.Pos(m[fs][0]), ok, d)
	}
	c.Floor(rule, len(fns), floor, "writers of "+what)
}

// K3 CALLERS: every call site (or reference) of fns is inside one of allowed.
func (c *Ctx) Callers(rule string, fns []*types.Func, allowed []string, floor int) {
	what := ""
	for _, f := range fns {
		if f == nil {
			c.Missing(rule, "callee for who-may-call rule")
			return
		}
		what += funcName(f) + " "
	}
	what = strings.TrimSpace(what)
	sites := c.P.CallersOf(fns...)
	seen := map[string]bool{}
	for _, s := range sites {
		n := s.Fn.name
		if seen[n] {
			continue
		}
		seen[n] = true
		ok := inList(n, allowed)
		d := ""
		if !ok {
			d = fmt.Sprintf("%s is called (or referenced) from %s; confirmed callers: %v", what, n, allowed)
		}
		pos := ""
		if s.Call != nil {
			pos = c.P.Pos(s.Call)
		} else {
			pos = c.P.Pos(s.In.Body)
		}
		c.Obl(rule, "caller of "+what+" in "+n, pos, ok, d)
	}
	c.Floor(rule, len(seen), floor, "callers of "+what)
}

// RequireBefore: every site of label b has one of as in its must-before set.
func (c *Ctx) RequireBefore(rule string, res *Result, b string, floor int, as ...string) {
	sites := res.Of(b)
	for _, s := range sites {
		ok := s.Before.HasAny(as...)
		d := ""
		if !ok {
			d = fmt.Sprintf("in %s: %q is not preceded on every path by %v (must-before: %v)", res.Fn.name, b, as, nonAt(s.Before))
		}
		c.Obl(rule, fmt.Sprintf("%s: %v before %s", res.Fn.name, as, b), c.P.Pos(s.Node), ok, d)
	}
	c.Floor(rule, len(sites), floor, fmt.Sprintf("sites of %s in %s", b, res.Fn.name))
}

// RequireAfter: from every site of a, one of bs follows on every normal path.
func (c *Ctx) RequireAfter(rule string, res *Result, a string, floor int, bs ...string) {
	sites := res.Of(a)
	for _, s := range sites {
		ok := s.Follows(bs...)
		d := ""
		if !ok {
			d = fmt.Sprintf("in %s: a normal path from %q to return avoids %v (must-after: %v)", res.Fn.name, a, bs, s.After.Sorted())
		}
		c.Obl(rule, fmt.Sprintf("%s: %s followed by %v", res.Fn.name, a, bs), c.P.Pos(s.Node), ok, d)
	}
	c.Floor(rule, len(sites), floor, fmt.Sprintf("sites of %s in %s", a, res.Fn.name))
}

// RequirePair: at every site of a, b happens before or must follow.
func (c *Ctx) RequirePair(rule string, res *Result, a string, floor int, bs ...string) {
	sites := res.Of(a)
	for _, s := range sites {
		ok := s.Before.HasAny(bs...) || s.Follows(bs...)
		d := ""
		if !ok {
			d = fmt.Sprintf("in %s: a path through %q has none of %v", res.Fn.name, a, bs)
		}
		c.Obl(rule, fmt.Sprintf("%s: %s paired with %v", res.Fn.name, a, bs), c.P.Pos(s.Node), ok, d)
	}
	c.Floor(rule, len(sites), floor, fmt.Sprintf("sites of %s in %s", a, res.Fn.name))
}

func nonAt(s Set) []string {
	return s.Sorted()
}

// need resolves an anchor or records it missing; returns false if missing.
func (c *Ctx) need(rule, what string, v any) bool {
	missing := v == nil
	switch x := v.(type) {
	case *types.Func:
		missing = x == nil
	case *types.Var:
		missing = x == nil
	case *types.Named:
		missing = x == nil
	case *FuncSrc:
		missing = x == nil || x.Body == nil
	case *types.Const:
		missing = x == nil
	}
	if missing {
		c.Missing(rule, what)
	}
	return !missing
}

// src resolves a function to its source, recording a missing mechanism otherwise.
func (c *Ctx) src(rule string, f *types.Func, what string) *FuncSrc {
	if f == nil {
		c.Missing(rule, what)
		return nil
	}
	fs := c.P.Src(f)
	if fs == nil || fs.Body == nil {
		c.Missing(rule, what+" (no source)")
		return nil
	}
	return fs
}

func (c *Ctx) method(rule, pkg, typ, name string) *FuncSrc {
	return c.src(rule, c.P.DeclaredMethod(pkg, typ, name), pkg+"."+typ+"."+name)
}

func (c *Ctx) function(rule, pkg, name string) *FuncSrc {
	return c.src(rule, c.P.Func(pkg, name), pkg+"."+name)
}

func callArg(call *ast.CallExpr, i int) ast.Expr {
	if call != nil && i < len(call.Args) {
		return call.Args[i]
	}
	return nil
}

type funcT = types.Func
type typesVar = types.Var

func slicesDelete(l []string, x string) []string {
	var out []string
	for _, s := range l {
		if s != x {
			out = append(out, s)
		}
	}
	return out
}

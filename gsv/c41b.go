package main

// C41.4c: the password check refuses the "no such user" answer of the hash lookup.
// AuthUser computes sha1(nonce + passhash) and compares; the lookup returns the
// sentinel "" for an unknown user (and when the lookup panics), and sha1(nonce + "") can
// be computed by anybody who was given the nonce.  Engler-style "result used without
// testing for the failure value": a callee with a constant failure return whose caller
// can succeed on a path that never excluded that value.

import (
	"go/ast"
	"go/constant"
	"go/types"
)

func checkAuthRefusesUnknownUser(c *Ctx, rule string) {
	p := c.P
	fs := c.function(rule, "dbms", "AuthUser")
	if fs == nil {
		return
	}
	info := fs.Info()
	// callees (in package dbms, string result) that return the constant "" on some path
	type sentinelCall struct {
		v    types.Object
		call *ast.CallExpr
		name string
	}
	var calls []sentinelCall
	ForEachNode(fs, func(nd ast.Node) {
		as, ok := nd.(*ast.AssignStmt)
		if !ok || len(as.Lhs) != 1 || len(as.Rhs) != 1 {
			return
		}
		call, ok := ast.Unparen(as.Rhs[0]).(*ast.CallExpr)
		if !ok {
			return
		}
		cal := Callee(info, call)
		cs := p.Src(cal)
		if cs == nil || cs.Body == nil || cs.Pkg != fs.Pkg {
			return
		}
		sig := cal.Type().(*types.Signature)
		if sig.Results().Len() != 1 || !types.Identical(sig.Results().At(0).Type(), types.Typ[types.String]) {
			return
		}
		hasSentinel := false
		ForEachNode(cs, func(m ast.Node) {
			if r, ok := m.(*ast.ReturnStmt); ok && len(r.Results) == 1 {
				if v := ConstVal(cs.Info(), r.Results[0]); v != nil && v.Kind() == constant.String && constant.StringVal(v) == "" {
					hasSentinel = true
				}
			}
			// named result assigned "" (recover path)
			if a, ok := m.(*ast.AssignStmt); ok && len(a.Lhs) == 1 && len(a.Rhs) == 1 {
				if id := identOf(a.Lhs[0]); id != nil && sig.Results().At(0) == cs.Info().Uses[id] {
					if v := ConstVal(cs.Info(), a.Rhs[0]); v != nil && v.Kind() == constant.String && constant.StringVal(v) == "" {
						hasSentinel = true
					}
				}
			}
		})
		if !hasSentinel {
			return
		}
		id := identOf(as.Lhs[0])
		if id == nil {
			return
		}
		o := info.Defs[id]
		if o == nil {
			o = info.Uses[id]
		}
		calls = append(calls, sentinelCall{o, call, funcName(cal)})
	})
	c.Floor(rule, len(calls), 1, "lookups in AuthUser that answer \"\" for 'not found'")
	if len(calls) == 0 {
		return
	}
	fl := &Flow{P: p, Edge: func(s *FuncSrc, cond ast.Expr, truth bool) []string { return []string{condLabel(cond, truth)} }}
	res := fl.Analyze(fs)
	for _, sc := range calls {
		for _, r := range res.Returns {
			if r.Fn != fs || len(r.Node.Results) != 1 || r.Node.Pos() < sc.call.Pos() {
				continue
			}
			if v := ConstVal(info, r.Node.Results[0]); v != nil && v.Kind() == constant.Bool && !constant.BoolVal(v) {
				continue // refusal
			}
			excluded := false
			for _, f := range condFactsOf(r.Before, nil) {
				env := &AbsEnv{Info: info, Atom: func(e ast.Expr) (constant.Value, bool) {
					if id, ok := e.(*ast.Ident); ok && info.Uses[id] == sc.v {
						return constant.MakeString(""), true
					}
					return nil, false
				}}
				if v := env.expr(f.Expr); v != nil && v.Kind() == constant.Bool && constant.BoolVal(v) != f.Truth {
					excluded = true // on this path the condition contradicts v == ""
				}
			}
			c.Obl(rule, "AuthUser can succeed only after excluding the 'no such user' answer of "+sc.name, p.Pos(r.Node), excluded,
				"the lookup answers \"\" for an unknown user (and when it panics) and no test on the path to this return excludes that value: sha1(nonce+\"\") is computable from the nonce alone, so a non-existent user authenticates without a password")
		}
	}
}

package main

// Bounded slot reads in the checker's ordered sets (util/ordset: written keys,
// util/ranges: read ranges).  Their nodes are fixed arrays `slots [N]T` with a `size`;
// a binary search returns an index in [0, size].  Comparing slots[i] with the searched
// key at i == size compares against a stale / zero slot: with the zero value "" being a
// legal key (empty key, key()), "already present" is answered for a key that is not in
// the set and the write is never recorded — so no later read can conflict with it.
// Sibling evidence (Engler's contradiction rule): Contains() and ranges' insert test
// `i < leaf.size` first; an unguarded comparison is the odd one out.

import (
	"go/ast"
	"go/token"
	"go/types"
)

// checkBoundedSlotReads adds obligations under rule for packages ordset and ranges.
func checkBoundedSlotReads(c *Ctx, rule string) {
	p := c.P
	total := 0
	for _, pkg := range []string{"util/ordset", "util/ranges"} {
		slots := p.Field(pkg, "leafNode", "slots")
		size := p.Field(pkg, "leafNode", "size")
		search := p.DeclaredMethod(pkg, "leafNode", "searchBinary")
		if !c.need(rule, pkg+".leafNode.slots", slots) || !c.need(rule, pkg+".leafNode.size", size) || !c.need(rule, pkg+".leafNode.searchBinary", search) {
			continue
		}
		// functions whose int results derive from searchBinary (search wrappers)
		searchers := map[*types.Func]bool{search: true}
		for changed := true; changed; {
			changed = false
			for _, fs := range p.FuncsIn(pkg) {
				if fs.Body == nil || fs.Obj == nil || searchers[fs.Obj] {
					continue
				}
				defs := buildDefs(fs)
				derives := false
				ForEachNode(fs, func(n ast.Node) {
					ret, ok := n.(*ast.ReturnStmt)
					if !ok {
						return
					}
					for _, r := range ret.Results {
						if t := fs.Info().TypeOf(r); t == nil || !types.Identical(t.Underlying(), types.Typ[types.Int]) {
							continue
						}
						if defs.Mentions(fs.Info(), r, func(m ast.Node) bool {
							call, ok := m.(*ast.CallExpr)
							return ok && searchers[Callee(fs.Info(), call)]
						}) {
							derives = true
						}
					}
				})
				if derives {
					searchers[fs.Obj] = true
					changed = true
				}
			}
		}
		for _, fs := range p.FuncsIn(pkg) {
			if fs.Body == nil {
				continue
			}
			info := fs.Info()
			defs := buildDefs(fs)
			par := parentMap(fs.Body)
			fromSearch := func(id *ast.Ident) bool {
				o := info.Uses[id]
				if o == nil || len(defs.defs[o]) == 0 {
					return false
				}
				for _, rhs := range defs.defs[o] {
					if call, ok := ast.Unparen(rhs).(*ast.CallExpr); ok && searchers[Callee(info, call)] {
						return true
					}
				}
				return false
			}
			// bound test `v < X.size` (truth) / `v >= X.size` (negated)
			boundFact := func(cond ast.Expr, truth bool) string {
				be, ok := ast.Unparen(cond).(*ast.BinaryExpr)
				if !ok {
					return ""
				}
				x, y, op := be.X, be.Y, be.Op
				if FieldOf(info, x) == size { // size > v  ==  v < size
					x, y = y, x
					switch op {
					case token.GTR:
						op = token.LSS
					case token.LEQ:
						op = token.GEQ
					default:
						return ""
					}
				}
				id, ok := ast.Unparen(x).(*ast.Ident)
				if !ok || FieldOf(info, y) != size {
					return ""
				}
				if (op == token.LSS && truth) || (op == token.GEQ && !truth) {
					return "@inrange:" + id.Name
				}
				return ""
			}
			fl := &Flow{P: p,
				Node: func(f *FuncSrc, n ast.Node) []string {
					// re-assignment of an index variable invalidates the bound fact; the constant 0 is in range
					as, ok := n.(*ast.AssignStmt)
					if !ok || len(as.Lhs) != len(as.Rhs) {
						return nil
					}
					var out []string
					for i, l := range as.Lhs {
						if id, ok := l.(*ast.Ident); ok {
							if v := ConstVal(info, as.Rhs[i]); v != nil && v.String() == "0" {
								out = append(out, "@inrange:"+id.Name)
							} else {
								out = append(out, "-@inrange:"+id.Name)
							}
						}
					}
					return out
				},
				Edge: func(f *FuncSrc, cond ast.Expr, truth bool) []string {
					if l := boundFact(cond, truth); l != "" {
						return []string{l}
					}
					return nil
				}}
			// sites: comparisons one of whose operands reads X.slots[v] (possibly .field / method on it)
			slotIndex := func(e ast.Expr) *ast.Ident {
				var found *ast.Ident
				ast.Inspect(e, func(n ast.Node) bool {
					ix, ok := n.(*ast.IndexExpr)
					if !ok || FieldOf(info, ix.X) != slots {
						return true
					}
					if id, ok := ast.Unparen(ix.Index).(*ast.Ident); ok && fromSearch(id) {
						found = id
					}
					return true
				})
				return found
			}
			type site struct {
				n  ast.Node
				id *ast.Ident
			}
			var sites []site
			ForEachNode(fs, func(n ast.Node) {
				switch x := n.(type) {
				case *ast.BinaryExpr:
					switch x.Op {
					case token.EQL, token.NEQ, token.LSS, token.LEQ, token.GTR, token.GEQ:
						for _, side := range []ast.Expr{x.X, x.Y} {
							if id := slotIndex(side); id != nil {
								sites = append(sites, site{x, id})
							}
						}
					}
				case *ast.CallExpr:
					// boolean method on a slot: leaf.slots[i].contains(…)
					if sel, ok := x.Fun.(*ast.SelectorExpr); ok {
						if t := info.TypeOf(x); t != nil && types.Identical(t.Underlying(), types.Typ[types.Bool]) {
							if id := slotIndex(sel.X); id != nil {
								sites = append(sites, site{x, id})
							}
						}
					}
				}
			})
			if len(sites) == 0 {
				continue
			}
			// facts at each site: label the site nodes
			siteOf := map[ast.Node]bool{}
			for _, s := range sites {
				siteOf[s.n] = true
			}
			base := fl.Node
			fl.Node = func(f *FuncSrc, n ast.Node) []string {
				out := base(f, n)
				if siteOf[n] {
					out = append(out, "slotread")
				}
				return out
			}
			res := fl.Analyze(fs)
			before := map[ast.Node]Set{}
			for _, s := range res.Of("slotread") {
				before[s.Node] = s.Before
			}
			for _, s := range sites {
				total++
				ok := before[s.n] != nil && before[s.n].Has("@inrange:"+s.id.Name)
				if !ok {
					// guarded inside the same condition: … v < X.size && slots[v]…
					for n := ast.Node(s.n); n != nil && !ok; n = par[n] {
						pe, isBin := par[n].(*ast.BinaryExpr)
						if !isBin || pe.Op != token.LAND || pe.Y != n {
							continue
						}
						var facts []condFact
						condFacts(pe.X, true, &facts)
						for _, f := range facts {
							if boundFact(f.e, f.truth) == "@inrange:"+s.id.Name {
								ok = true
							}
						}
					}
				}
				c.Obl(rule, fs.name+": slot compared at a searched index only after index < size", p.Pos(s.n), ok,
					"slots["+s.id.Name+"] is compared although "+s.id.Name+" (a binary-search result in [0,size]) may equal size: the stale/zero slot \"\" then matches the empty key, "+
						"so Insert(\"\") reports 'already present' without storing it and the checker never sees writes of an empty key (key() tables, empty key values)")
			}
		}
	}
	c.Floor(rule, total, 5, "slot comparisons at searched indexes in ordset/ranges")
}

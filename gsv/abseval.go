package main

// K14: evaluation of small pure functions / predicates over a finite domain.
// Values are go/constant values; leaves the evaluator cannot compute are supplied
// by the Atom callback; nil means "unknown" and is propagated (with short-circuit).

import (
	"fmt"
	"go/ast"
	"go/constant"
	"go/token"
	"go/types"
)

type AbsEnv struct {
	Info   *types.Info
	Atom   func(e ast.Expr) (constant.Value, bool) // leaf override (fields, calls, parameters)
	Locals map[types.Object]constant.Value
	Trace  []string
	// OnExec, if set, is called for every statement the fold executes (before it) and for
	// every loop it skips.  SkipLoops makes for/range statements no-ops instead of Unknown.
	OnExec    func(n ast.Node)
	SkipLoops bool
	// Inline, if set, gives the source of a statically resolved callee; a call whose
	// arguments fold is then evaluated by folding the callee's body (depth-limited).
	Inline func(f *types.Func) *FuncSrc
	// AtomEnv is like Atom but receives the environment that evaluates the expression
	// (the callee's, when a call was inlined), so that it can fold sub-expressions there.
	AtomEnv func(en *AbsEnv, e ast.Expr) (constant.Value, bool)
	// RangeOver, if set, gives the elements of a ranged-over expression; the loop is then
	// unrolled over exactly those elements (the rule supplies a small model list).
	RangeOver func(e ast.Expr) ([]constant.Value, bool)
	depth     int
}

type absResult struct {
	Panics  bool
	Returns []constant.Value // nil element = unknown
	Unknown string           // non-empty: evaluation got stuck here
}

func (env *AbsEnv) expr(e ast.Expr) constant.Value {
	e = ast.Unparen(e)
	if env.AtomEnv != nil {
		if v, ok := env.AtomEnv(env, e); ok {
			return v
		}
	}
	if env.Atom != nil {
		if v, ok := env.Atom(e); ok {
			return v
		}
	}
	if tv, ok := env.Info.Types[e]; ok && tv.Value != nil {
		return tv.Value
	}
	switch x := e.(type) {
	case *ast.Ident:
		if o := env.Info.Uses[x]; o != nil {
			if v, ok := env.Locals[o]; ok {
				return v
			}
		}
		if x.Name == "true" {
			return constant.MakeBool(true)
		}
		if x.Name == "false" {
			return constant.MakeBool(false)
		}
	case *ast.UnaryExpr:
		v := env.expr(x.X)
		if v == nil {
			return nil
		}
		switch x.Op {
		case token.NOT:
			return constant.MakeBool(!constant.BoolVal(v))
		case token.SUB, token.ADD, token.XOR:
			return constant.UnaryOp(x.Op, v, 64)
		}
	case *ast.BinaryExpr:
		switch x.Op {
		case token.LAND:
			l := env.expr(x.X)
			if l != nil && !constant.BoolVal(l) {
				return l
			}
			r := env.expr(x.Y)
			if r != nil && !constant.BoolVal(r) {
				return r
			}
			if l == nil || r == nil {
				return nil
			}
			return constant.MakeBool(true)
		case token.LOR:
			l := env.expr(x.X)
			if l != nil && constant.BoolVal(l) {
				return l
			}
			r := env.expr(x.Y)
			if r != nil && constant.BoolVal(r) {
				return r
			}
			if l == nil || r == nil {
				return nil
			}
			return constant.MakeBool(false)
		}
		l, r := env.expr(x.X), env.expr(x.Y)
		if l == nil || r == nil {
			return nil
		}
		switch x.Op {
		case token.EQL, token.NEQ, token.LSS, token.LEQ, token.GTR, token.GEQ:
			if l.Kind() != r.Kind() && !(isNum(l) && isNum(r)) {
				return nil
			}
			return constant.MakeBool(constant.Compare(l, x.Op, r))
		case token.SHL, token.SHR:
			n, ok := constant.Uint64Val(r)
			if !ok {
				return nil
			}
			v := constant.Shift(l, x.Op, uint(n))
			return wrap64(env, e, v)
		case token.ADD, token.SUB, token.MUL, token.AND, token.OR, token.XOR, token.AND_NOT, token.REM:
			return wrap64(env, e, constant.BinaryOp(l, x.Op, r))
		case token.QUO:
			if isNum(r) && constant.Sign(r) == 0 {
				return nil
			}
			return wrap64(env, e, constant.BinaryOp(l, token.QUO_ASSIGN, r))
		}
	case *ast.CallExpr:
		// conversions T(x) of basic types
		if len(x.Args) == 1 {
			if tv, ok := env.Info.Types[x.Fun]; ok && tv.IsType() {
				v := env.expr(x.Args[0])
				if v == nil {
					return nil
				}
				return wrap64(env, e, v)
			}
		}
		if env.Inline != nil && env.depth < 5 {
			if callee := Callee(env.Info, x); callee != nil {
				if src := env.Inline(callee); src != nil && src.Body != nil {
					sig := callee.Type().(*types.Signature)
					if sig.Params().Len() == len(x.Args) && !sig.Variadic() && sig.Results().Len() == 1 {
						sub := &AbsEnv{Info: src.Info(), Atom: env.Atom, AtomEnv: env.AtomEnv, Inline: env.Inline, OnExec: env.OnExec, SkipLoops: false, depth: env.depth + 1, Locals: map[types.Object]constant.Value{}}
						// parameters of the declaration (the objects the body refers to)
						var params []*ast.Ident
						if src.Decl != nil && src.Decl.Type.Params != nil {
							for _, fld := range src.Decl.Type.Params.List {
								params = append(params, fld.Names...)
							}
						}
						if len(params) == len(x.Args) {
							for i, a := range x.Args {
								sub.Locals[sub.Info.Defs[params[i]]] = env.expr(a)
							}
							r := sub.run(src.Body)
							if r.Unknown == "" && !r.Panics && len(r.Returns) == 1 {
								return r.Returns[0]
							}
						}
					}
				}
			}
		}
	}
	return nil
}

// compound folds x op= y for the integer operators; nil if it cannot.
func (env *AbsEnv) compound(lhs ast.Expr, tok token.Token, cur, y constant.Value) constant.Value {
	if cur == nil || y == nil || cur.Kind() != constant.Int || y.Kind() != constant.Int {
		return nil
	}
	var op token.Token
	switch tok {
	case token.ADD_ASSIGN:
		op = token.ADD
	case token.SUB_ASSIGN:
		op = token.SUB
	case token.MUL_ASSIGN:
		op = token.MUL
	case token.AND_ASSIGN:
		op = token.AND
	case token.OR_ASSIGN:
		op = token.OR
	case token.XOR_ASSIGN:
		op = token.XOR
	case token.SHL_ASSIGN, token.SHR_ASSIGN:
		n, ok := constant.Uint64Val(y)
		if !ok {
			return nil
		}
		sh := token.SHL
		if tok == token.SHR_ASSIGN {
			sh = token.SHR
		}
		return wrap64(env, lhs, constant.Shift(cur, sh, uint(n)))
	default:
		return nil
	}
	return wrap64(env, lhs, constant.BinaryOp(cur, op, y))
}

func isNum(v constant.Value) bool { return v.Kind() == constant.Int || v.Kind() == constant.Float }

// wrap64 truncates an integer result to the width of the expression's type.
func wrap64(env *AbsEnv, e ast.Expr, v constant.Value) constant.Value {
	if v == nil || v.Kind() != constant.Int {
		return v
	}
	t := env.Info.TypeOf(e)
	if t == nil {
		return v
	}
	b, ok := t.Underlying().(*types.Basic)
	if !ok {
		return v
	}
	var bits uint
	signed := false
	switch b.Kind() {
	case types.Uint64, types.Uint, types.Uintptr:
		bits = 64
	case types.Int64, types.Int:
		bits, signed = 64, true
	case types.Uint32:
		bits = 32
	case types.Int32:
		bits, signed = 32, true
	case types.Uint16:
		bits = 16
	case types.Int16:
		bits, signed = 16, true
	case types.Uint8:
		bits = 8
	case types.Int8:
		bits, signed = 8, true
	default:
		return v
	}
	mod := constant.Shift(constant.MakeInt64(1), token.SHL, bits)
	mask := constant.BinaryOp(mod, token.SUB, constant.MakeInt64(1))
	r := constant.BinaryOp(v, token.AND, mask) // math/big And is two's complement for negatives
	if signed {
		half := constant.Shift(constant.MakeInt64(1), token.SHL, bits-1)
		if constant.Compare(r, token.GEQ, half) {
			r = constant.BinaryOp(r, token.SUB, mod)
		}
	}
	return r
}

// run interprets a function body; it supports if / switch / return / panic / simple
// assignments / blocks.  Anything else makes the result Unknown.
func (env *AbsEnv) run(body *ast.BlockStmt) absResult {
	if env.Locals == nil {
		env.Locals = map[types.Object]constant.Value{}
	}
	res, done := env.stmts(body.List)
	if !done && res.Unknown == "" && !res.Panics && res.Returns == nil {
		res.Returns = []constant.Value{} // fell off the end
	}
	return res
}

func (env *AbsEnv) stmts(list []ast.Stmt) (absResult, bool) {
	for _, s := range list {
		r, done := env.stmt(s)
		if done {
			return r, true
		}
	}
	return absResult{}, false
}

type breakSignal struct{}

func (env *AbsEnv) stmt(s ast.Stmt) (absResult, bool) {
	if env.OnExec != nil {
		switch s.(type) {
		case *ast.BlockStmt, *ast.IfStmt, *ast.SwitchStmt:
		default:
			env.OnExec(s)
		}
	}
	switch s := s.(type) {
	case *ast.DeferStmt:
		return absResult{}, false
	case *ast.RangeStmt:
		if env.RangeOver != nil {
			if elems, ok := env.RangeOver(s.X); ok {
				for i, el := range elems {
					if id, ok := s.Key.(*ast.Ident); ok && id.Name != "_" {
						env.Locals[env.Info.ObjectOf(id)] = constant.MakeInt64(int64(i))
					}
					if id, ok := s.Value.(*ast.Ident); ok && id.Name != "_" {
						env.Locals[env.Info.ObjectOf(id)] = el
					}
					if r, done := env.stmts(s.Body.List); done {
						return r, true
					}
				}
				return absResult{}, false
			}
		}
		if env.SkipLoops {
			return absResult{}, false
		}
	case *ast.ForStmt:
		if env.SkipLoops {
			return absResult{}, false
		}
	case *ast.BlockStmt:
		return env.stmts(s.List)
	case *ast.ReturnStmt:
		var vals []constant.Value
		for _, r := range s.Results {
			vals = append(vals, env.expr(r))
		}
		if vals == nil {
			vals = []constant.Value{}
		}
		return absResult{Returns: vals}, true
	case *ast.ExprStmt:
		if call, ok := s.X.(*ast.CallExpr); ok {
			if IsBuiltin(env.Info, call, "panic") {
				return absResult{Panics: true}, true
			}
			// assert.That(cond) / assert.Msg(...).That(cond): false => panics
			if f := Callee(env.Info, call); f != nil && f.Name() == "That" && f.Pkg() != nil && f.Pkg().Name() == "assert" && len(call.Args) == 1 {
				v := env.expr(call.Args[0])
				if v != nil && !constant.BoolVal(v) {
					return absResult{Panics: true}, true
				}
				return absResult{}, false
			}
		}
		return absResult{}, false // other calls: assumed effect-free for the evaluated result
	case *ast.AssignStmt:
		if len(s.Lhs) == len(s.Rhs) {
			vals := make([]constant.Value, len(s.Rhs))
			for i := range s.Rhs {
				vals[i] = env.expr(s.Rhs[i])
			}
			for i, l := range s.Lhs {
				id, ok := l.(*ast.Ident)
				if !ok {
					continue
				}
				o := env.Info.Defs[id]
				if o == nil {
					o = env.Info.Uses[id]
				}
				if o == nil {
					continue
				}
				switch s.Tok {
				case token.DEFINE, token.ASSIGN:
					env.Locals[o] = vals[i]
				default:
					env.Locals[o] = env.compound(l, s.Tok, env.Locals[o], vals[i])
				}
			}
		}
		return absResult{}, false
	case *ast.DeclStmt:
		if gd, ok := s.Decl.(*ast.GenDecl); ok {
			for _, sp := range gd.Specs {
				if vs, ok := sp.(*ast.ValueSpec); ok {
					for i, nm := range vs.Names {
						if i < len(vs.Values) {
							env.Locals[env.Info.Defs[nm]] = env.expr(vs.Values[i])
						}
					}
				}
			}
		}
		return absResult{}, false
	case *ast.IfStmt:
		if s.Init != nil {
			if r, done := env.stmt(s.Init); done {
				return r, true
			}
		}
		v := env.expr(s.Cond)
		if v == nil {
			return absResult{Unknown: "condition " + exprStr(s.Cond)}, true
		}
		if constant.BoolVal(v) {
			return env.stmt(s.Body)
		}
		if s.Else != nil {
			return env.stmt(s.Else)
		}
		return absResult{}, false
	case *ast.SwitchStmt:
		if s.Init != nil {
			if r, done := env.stmt(s.Init); done {
				return r, true
			}
		}
		var tag constant.Value
		if s.Tag != nil {
			tag = env.expr(s.Tag)
			if tag == nil {
				return absResult{Unknown: "switch tag " + exprStr(s.Tag)}, true
			}
		}
		var deflt *ast.CaseClause
		for _, cl := range s.Body.List {
			cc := cl.(*ast.CaseClause)
			if cc.List == nil {
				deflt = cc
				continue
			}
			for _, ce := range cc.List {
				v := env.expr(ce)
				if v == nil {
					return absResult{Unknown: "case " + exprStr(ce)}, true
				}
				match := false
				if tag != nil {
					match = constant.Compare(tag, token.EQL, v)
				} else {
					match = constant.BoolVal(v)
				}
				if match {
					return env.caseBody(cc)
				}
			}
		}
		if deflt != nil {
			return env.caseBody(deflt)
		}
		return absResult{}, false
	case *ast.EmptyStmt:
		return absResult{}, false
	case *ast.IncDecStmt:
		return absResult{}, false
	}
	return absResult{Unknown: fmt.Sprintf("unsupported statement %T", s)}, true
}

func (env *AbsEnv) caseBody(cc *ast.CaseClause) (absResult, bool) {
	for _, st := range cc.Body {
		if br, ok := st.(*ast.BranchStmt); ok && br.Tok == token.BREAK {
			return absResult{}, false
		}
		if r, done := env.stmt(st); done {
			return r, true
		}
	}
	return absResult{}, false
}

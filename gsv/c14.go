package main

// C14 (one clause): the fixed-width integer codecs of the storage layer
// (db19/stor Writer.PutN / Reader.GetN, Write/Append/ReadSmallOffset) agree byte for
// byte.  The byte expressions of each writer and the value expression of each reader are
// extracted from the code and evaluated (go/constant, width-exact) on vectors that
// determine a little/big-endian byte mapping completely: a value whose bytes are all
// different, plus the boundaries of the width.  Also: reader advance == number of bytes
// written, the writer's range guard is exactly [0, 2^(8N)), the string codecs use the
// paired length codec.  Records, varints and the client/server encodings are not decided.

import (
	"fmt"
	"go/ast"
	"go/constant"
	"go/token"
	"go/types"
	"sort"
	"strings"
)

func init() { register("C14", checkC14, "./db19/stor/...", "./dbms/mux/...") }

type c14Writer struct {
	fs    *FuncSrc
	param types.Object // the value parameter
	bytes []ast.Expr   // expression of byte k
}

type c14Reader struct {
	fs      *FuncSrc
	value   ast.Expr // expression of the decoded value over buf[k]
	advance int      // bytes consumed (-1: not a cursor reader)
	maxIdx  int
}

// bufIndex: e is X[k] with constant k where X is a []byte parameter/field; returns k.
func c14BufIndex(info *types.Info, e ast.Expr) (int, bool) {
	ix, ok := ast.Unparen(e).(*ast.IndexExpr)
	if !ok {
		return 0, false
	}
	t := info.TypeOf(ix.X)
	if t == nil {
		return 0, false
	}
	sl, ok := t.Underlying().(*types.Slice)
	if !ok || !types.Identical(sl.Elem(), types.Typ[types.Uint8]) {
		return 0, false
	}
	v := ConstVal(info, ix.Index)
	if v == nil {
		return 0, false
	}
	k, _ := constant.Int64Val(v)
	return int(k), true
}

func c14ExtractWriter(fs *FuncSrc) *c14Writer {
	info := fs.Info()
	sig := fs.Obj.Type().(*types.Signature)
	var param types.Object
	for i := 0; i < sig.Params().Len(); i++ {
		if b, ok := sig.Params().At(i).Type().Underlying().(*types.Basic); ok && b.Info()&types.IsInteger != 0 {
			param = sig.Params().At(i)
		}
	}
	if param == nil {
		return nil
	}
	w := &c14Writer{fs: fs, param: param}
	byIdx := map[int]ast.Expr{}
	ForEachNode(fs, func(nd ast.Node) {
		switch x := nd.(type) {
		case *ast.CallExpr:
			// append(buf, byte(..), byte(..) ...)
			if IsBuiltin(info, x, "append") && len(x.Args) > 1 && !x.Ellipsis.IsValid() {
				all := true
				for _, a := range x.Args[1:] {
					if t := info.TypeOf(a); t == nil || !types.Identical(t.Underlying(), types.Typ[types.Uint8]) {
						all = false
					}
				}
				if all && len(w.bytes) == 0 {
					w.bytes = append(w.bytes, x.Args[1:]...)
				}
			}
		case *ast.AssignStmt:
			// buf[k] = byte(..)
			for i, l := range x.Lhs {
				if k, ok := c14BufIndex(info, l); ok && i < len(x.Rhs) {
					byIdx[k] = x.Rhs[i]
				}
			}
		}
	})
	if len(w.bytes) == 0 && len(byIdx) > 0 {
		for k := 0; k < len(byIdx); k++ {
			e, ok := byIdx[k]
			if !ok {
				return nil
			}
			w.bytes = append(w.bytes, e)
		}
	}
	if len(w.bytes) == 0 {
		return nil
	}
	// every byte expression must depend on the parameter
	defs := buildDefs(fs)
	for _, b := range w.bytes {
		if !defs.MentionsObj(info, b, param) {
			return nil
		}
	}
	return w
}

func c14ExtractReader(fs *FuncSrc) *c14Reader {
	info := fs.Info()
	sig := fs.Obj.Type().(*types.Signature)
	if sig.Results().Len() != 1 {
		return nil
	}
	if b, ok := sig.Results().At(0).Type().Underlying().(*types.Basic); !ok || b.Info()&types.IsInteger == 0 {
		return nil
	}
	r := &c14Reader{fs: fs, advance: -1, maxIdx: -1}
	defs := buildDefs(fs)
	ForEachNode(fs, func(nd ast.Node) {
		switch x := nd.(type) {
		case *ast.ReturnStmt:
			if len(x.Results) == 1 {
				e := x.Results[0]
				if id := identOf(e); id != nil {
					if ds := defs.defs[info.Uses[id]]; len(ds) == 1 {
						e = ds[0]
					}
				}
				r.value = e
			}
		case *ast.AssignStmt:
			// r.buf = r.buf[K:]
			if len(x.Lhs) == 1 && len(x.Rhs) == 1 {
				if se, ok := ast.Unparen(x.Rhs[0]).(*ast.SliceExpr); ok && se.High == nil && se.Low != nil && exprStr(se.X) == exprStr(x.Lhs[0]) {
					if v := ConstVal(info, se.Low); v != nil {
						k, _ := constant.Int64Val(v)
						r.advance = int(k)
					}
				}
			}
		}
	})
	if r.value == nil {
		return nil
	}
	n := 0
	ast.Inspect(r.value, func(m ast.Node) bool {
		if e, ok := m.(ast.Expr); ok {
			if k, ok := c14BufIndex(info, e); ok {
				n++
				if k > r.maxIdx {
					r.maxIdx = k
				}
			}
		}
		return true
	})
	if n == 0 {
		return nil
	}
	return r
}

func checkC14(c *Ctx) string {
	p := c.P
	r1 := "C14.1 K14 fixed-width writers and readers of db19/stor agree byte for byte"
	var writers []*c14Writer
	var readers []*c14Reader
	for _, fs := range p.FuncsIn("db19/stor") {
		if fs.Body == nil || fs.Obj == nil {
			continue
		}
		if w := c14ExtractWriter(fs); w != nil {
			writers = append(writers, w)
		} else if r := c14ExtractReader(fs); r != nil {
			readers = append(readers, r)
		}
	}
	sort.Slice(writers, func(i, j int) bool { return writers[i].fs.name < writers[j].fs.name })
	sort.Slice(readers, func(i, j int) bool { return readers[i].fs.name < readers[j].fs.name })
	c.Floor(r1, len(writers), 7, "fixed-width writers found by shape")
	c.Floor(r1, len(readers), 6, "fixed-width readers found by shape")
	readerByWidth := map[int][]*c14Reader{}
	for _, r := range readers {
		w := r.maxIdx + 1
		readerByWidth[w] = append(readerByWidth[w], r)
		if r.advance >= 0 {
			c.Obl(r1, r.fs.name+": the reader consumes exactly the bytes it decodes", p.Pos(r.fs.Decl), r.advance == w,
				fmt.Sprintf("decodes bytes 0..%d but advances the cursor by %d: every following field is read at the wrong offset", r.maxIdx, r.advance))
		}
	}
	nvec := 0
	for _, w := range writers {
		n := len(w.bytes)
		rs := readerByWidth[n]
		// pair within the same receiver family: cursor writers (methods of Writer) with cursor readers, slice functions with slice functions
		var cand []*c14Reader
		wIsMethod := w.fs.Obj.Type().(*types.Signature).Recv() != nil
		for _, r := range rs {
			if (r.fs.Obj.Type().(*types.Signature).Recv() != nil) == wIsMethod {
				cand = append(cand, r)
			}
		}
		c.Obl(r1, w.fs.name+": has a reader of the same width", p.Pos(w.fs.Decl), len(cand) >= 1,
			fmt.Sprintf("%d bytes are written but no reader in the package decodes %d bytes", n, n))
		// test vectors
		max := new(bigInt).lsh1(uint(8 * n)) // 2^(8n)
		vecs := []constant.Value{constant.MakeInt64(0), constant.MakeInt64(1), constant.MakeInt64(0x80), constant.MakeInt64(0xff)}
		distinct := constant.MakeInt64(0)
		for k := n - 1; k >= 0; k-- {
			distinct = constant.BinaryOp(constant.Shift(distinct, token.SHL, 8), token.OR, constant.MakeInt64(int64(k+1)))
		}
		vecs = append(vecs, distinct, constant.BinaryOp(max.c(), token.SUB, constant.MakeInt64(1)), constant.Shift(constant.MakeInt64(1), token.SHL, uint(8*n-1)))
		if n > 1 {
			vecs = append(vecs, constant.MakeInt64(0x100))
		}
		for _, r := range cand {
			var bad []string
			for _, v := range vecs {
				nvec++
				// writer bytes
				bs := make([]constant.Value, n)
				wenv := &AbsEnv{Info: w.fs.Info(), Atom: func(e ast.Expr) (constant.Value, bool) {
					if id, ok := e.(*ast.Ident); ok && w.fs.Info().Uses[id] == w.param {
						return v, true
					}
					return nil, false
				}}
				okw := true
				for k, be := range w.bytes {
					bs[k] = wenv.expr(be)
					if bs[k] == nil {
						okw = false
					}
				}
				if !okw {
					bad = append(bad, fmt.Sprintf("value %s: a byte expression of the writer cannot be evaluated", v))
					continue
				}
				renv := &AbsEnv{Info: r.fs.Info(), Atom: func(e ast.Expr) (constant.Value, bool) {
					if k, ok := c14BufIndex(r.fs.Info(), e); ok && k < n {
						return bs[k], true
					}
					return nil, false
				}}
				got := renv.expr(r.value)
				if got == nil || !constant.Compare(got, token.EQL, v) {
					bad = append(bad, fmt.Sprintf("wrote %s as bytes %v, read back %v", hexc(v), hexs(bs), hexc(got)))
				}
			}
			c.Obl(r1, w.fs.name+" → "+r.fs.name+": every test value reads back unchanged", p.Pos(w.fs.Decl), len(bad) == 0, strings.Join(bad, "; "))
		}
		// range guard of cursor writers: panics exactly outside [0, 2^(8n))
		if wIsMethod {
			guard := func(v constant.Value) (bool, bool) {
				env := &AbsEnv{Info: w.fs.Info(), Atom: func(e ast.Expr) (constant.Value, bool) {
					if id, ok := e.(*ast.Ident); ok && w.fs.Info().Uses[id] == w.param {
						return v, true
					}
					return nil, false
				}}
				res := env.run(w.fs.Body)
				return res.Panics, res.Unknown == ""
			}
			p1, ok1 := guard(constant.BinaryOp(max.c(), token.SUB, constant.MakeInt64(1)))
			p2, ok2 := guard(max.c())
			p3, ok3 := guard(constant.MakeInt64(-1))
			p0, ok0 := guard(constant.MakeInt64(0))
			c.Obl(r1, w.fs.name+": refuses exactly the values that do not fit its width", p.Pos(w.fs.Decl),
				ok0 && ok1 && ok2 && ok3 && !p0 && !p1 && p2 && p3,
				fmt.Sprintf("panics: 0→%v, 2^%d-1→%v, 2^%d→%v, -1→%v (want false,false,true,true): a value that does not fit is silently truncated, or a fitting value is refused", p0, 8*n, p1, 8*n, p2, p3))
		}
	}
	c.Stats["vectors_evaluated"] = nvec
	// constants of the small offset
	if so := p.Const("db19/stor", "SmallOffsetLen"); so != nil {
		if mx := p.Const("db19/stor", "MaxSmallOffset"); mx != nil {
			n, _ := constant.Int64Val(so)
			want := constant.BinaryOp(constant.Shift(constant.MakeInt64(1), token.SHL, uint(8*n)), token.SUB, constant.MakeInt64(1))
			c.Obl(r1, "MaxSmallOffset == 2^(8*SmallOffsetLen)-1", "", constant.Compare(mx, token.EQL, want), "")
			for _, w := range writers {
				if strings.Contains(w.fs.name, "SmallOffset") {
					c.Obl(r1, w.fs.name+": writes SmallOffsetLen bytes", p.Pos(w.fs.Decl), int64(len(w.bytes)) == n, "")
				}
			}
		}
	}

	// ---- string codecs use the paired length codec
	r2 := "C14.2 K9 string codecs: length prefix written and read with paired fixed-width codecs"
	pairs := [][2]string{{"PutStr", "GetStr"}, {"PutStrs", "GetStrs"}}
	widthOf := func(f *types.Func) int {
		fs := p.Src(f)
		if fs == nil {
			return -1
		}
		if w := c14ExtractWriter(fs); w != nil {
			return len(w.bytes)
		}
		if r := c14ExtractReader(fs); r != nil {
			return r.maxIdx + 1
		}
		return -1
	}
	for _, pr := range pairs {
		wf := c.method(r2, "db19/stor", "Writer", pr[0])
		rf := c.method(r2, "db19/stor", "Reader", pr[1])
		if wf == nil || rf == nil {
			continue
		}
		first := func(fs *FuncSrc) (int, *types.Func) {
			var f *types.Func
			w := -1
			ForEachNode(fs, func(nd ast.Node) {
				if call, ok := nd.(*ast.CallExpr); ok && f == nil {
					if cal := Callee(fs.Info(), call); cal != nil && cal.Pkg() == fs.Obj.Pkg() {
						if k := widthOf(cal); k > 0 {
							f, w = cal, k
						}
					}
				}
			})
			return w, f
		}
		ww, wfn := first(wf)
		rw, rfn := first(rf)
		c.Obl(r2, pr[0]+" / "+pr[1]+": the count is written and read with the same width", p.Pos(wf.Decl), ww > 0 && ww == rw,
			fmt.Sprintf("writer uses a %d-byte count (%v), reader a %d-byte count (%v)", ww, wfn, rw, rfn))
		if pr[0] == "PutStrs" {
			// elements through the paired element codec
			ew := len(p.CallsIn(wf, p.DeclaredMethod("db19/stor", "Writer", "PutStr")))
			er := len(p.CallsIn(rf, p.DeclaredMethod("db19/stor", "Reader", "GetStr")))
			c.Obl(r2, "PutStrs / GetStrs: elements go through PutStr / GetStr", p.Pos(wf.Decl), ew == 1 && er == 1, "")
		}
	}
	// LenStr's constant equals the width of the count
	if ls := c.function(r2, "db19/stor", "LenStr"); ls != nil {
		env := &AbsEnv{Info: ls.Info(), Atom: func(e ast.Expr) (constant.Value, bool) {
			if call, ok := e.(*ast.CallExpr); ok && IsBuiltin(ls.Info(), call, "len") {
				return constant.MakeInt64(0), true
			}
			return nil, false
		}}
		res := env.run(ls.Body)
		put2 := p.DeclaredMethod("db19/stor", "Writer", "PutStr")
		w := -1
		if put2 != nil {
			if fs := p.Src(put2); fs != nil {
				ForEachNode(fs, func(nd ast.Node) {
					if call, ok := nd.(*ast.CallExpr); ok && w < 0 {
						if cal := Callee(fs.Info(), call); cal != nil {
							if k := widthOf(cal); k > 0 {
								w = k
							}
						}
					}
				})
			}
		}
		got := int64(-1)
		if len(res.Returns) == 1 && res.Returns[0] != nil {
			got, _ = constant.Int64Val(res.Returns[0])
		}
		c.Obl(r2, "LenStr(\"\") equals the width of the length prefix PutStr writes", p.Pos(ls.Decl), int(got) == w && w > 0,
			fmt.Sprintf("LenStr of the empty string is %d, PutStr writes a %d-byte count: space computed for a record would be wrong", got, w))
	}
	checkZigZagVarint(c, "C14.3 K14 the zig-zag varint of the client-server protocol round-trips")
	checkRecordHeaderClasses(c, "C14.4 K14 record header size classes: length formula, class and reader widths agree")
	return "One clause of C14: the fixed-width integer codecs of db19/stor (Writer.Put1..Put5 with Reader.Get1..Get5, Write/AppendSmallOffset with ReadSmallOffset) are extracted by shape and evaluated width-exactly " +
		"on a value with pairwise different bytes and on the boundaries of the width: what is written reads back unchanged, the reader advances by exactly the bytes it decodes, the writer's guard refuses exactly the values that do not fit, " +
		"PutStr/GetStr and PutStrs/GetStrs use paired count codecs and LenStr agrees with the prefix width. Because every byte position carries one shift, the distinct-byte vector determines the byte mapping completely. " +
		"Also: the zig-zag varint of dbms/mux (PutInt64/GetInt64): loop constants agree and decode(encode(v)) == v is folded on the boundary values of int64. Record headers (core/record.go): for lengths around both class boundaries the offset width assumed by tblength equals the width buildOffsets writes for mode(length) and the length fits it; Len, RecLen and GetRaw decode, per class, adjacent big-endian offsets of that width at that stride (cases evaluated with the bytes numbered). NOT decided: record truncation, util/varint, size-prefixed strings of dbms/mux (their token sequences are under C40)."
}

// tiny helpers over go/constant
type bigInt struct{ v constant.Value }

func (b *bigInt) lsh1(n uint) *bigInt {
	b.v = constant.Shift(constant.MakeInt64(1), token.SHL, n)
	return b
}
func (b *bigInt) c() constant.Value { return b.v }

func hexc(v constant.Value) string {
	if v == nil {
		return "?"
	}
	if n, ok := constant.Uint64Val(v); ok {
		return fmt.Sprintf("%#x", n)
	}
	return v.String()
}

func hexs(vs []constant.Value) string {
	var out []string
	for _, v := range vs {
		out = append(out, hexc(v))
	}
	return "[" + strings.Join(out, " ") + "]"
}

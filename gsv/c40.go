package main

// C40 client–server agreement: client method ↔ command constant ↔ handler in dbms.cmds ↔
// interface method (K9); the command table against the command constants (K1/K14); the
// wire sequences of both sides per command (K20, c40wire.go / c40re.go); the mux framing
// (K7, K1, c40mux.go).

import (
	"fmt"
	"go/ast"
	"go/constant"
	"go/token"
	"go/types"
	"sort"
	"strings"
)

func init() { register("C40", checkC40, "./dbms/...") }

type c40Unit struct {
	fs  *FuncSrc
	cmd int // command constant passed to PutCmd
}

type c40A struct {
	c        *Ctx
	p        *Prog
	w        *c40Wire
	table    []cmdEntry
	byIdx    map[int]cmdEntry
	consts   map[int]string
	units    []c40Unit
	unitsOf  map[*FuncSrc][]int // function -> commands it sends directly
	dbmsPkg  *types.Package
	handlers map[*FuncSrc]bool
}

func checkC40(c *Ctx) string {
	p := c.P
	r0 := "C40.0 anchors"
	w := newC40Wire(c, r0)
	table, _ := cmdsTable(c, r0)
	consts, cmdType := commandConsts(p)
	if w == nil || table == nil || !c.need(r0, "dbms/commands.Command", cmdType) || len(consts) == 0 {
		if len(consts) == 0 {
			c.Missing(r0, "constants of type commands.Command")
		}
		return "anchors missing"
	}
	a := &c40A{c: c, p: p, w: w, table: table, byIdx: map[int]cmdEntry{}, consts: consts, unitsOf: map[*FuncSrc][]int{},
		dbmsPkg: p.Pkg("dbms").Types, handlers: map[*FuncSrc]bool{}}
	for _, e := range table {
		a.byIdx[e.Idx] = e
		if e.Src != nil {
			a.handlers[e.Src] = true
		}
	}
	// client units: functions of package dbms that call PutCmd with a constant
	for _, fs := range p.FuncsIn("dbms") {
		for _, call := range p.CallsIn(fs, w.putCmd) {
			v := ConstVal(fs.Info(), callArg(call, 0))
			if v == nil {
				c.Obl(r0, fs.name+": PutCmd with a constant command", p.Pos(call), false, "the command cannot be resolved statically")
				continue
			}
			n, _ := constant.Int64Val(v)
			a.unitsOf[fs] = append(a.unitsOf[fs], int(n))
			a.units = append(a.units, c40Unit{fs, int(n)})
		}
	}
	c.Floor(r0, len(a.units), 40, "client functions that send a command (PutCmd)")

	a.table1()
	a.methods()
	a.wireSeqs()
	c40Mux(c)

	checkPerRequestState(c, "C40.4 K4 per-request resources reach the session on every path")
	checkTranFallback(c, "C40.5 K4c an optional transaction decides between the transaction's and the connection's operation")
	checkWorkerTaskBinding(c, "C40.6 K4 a worker binds its write buffer to every task")
	checkHandlerResultsUsed(c, "C40.7 K8 handlers use what the database operation returned")
	return "Static agreement of the two ends of the client-server protocol. Decided: every constant of type commands.Command indexes a non-nil entry of dbms.cmds (read from the composite literal) and the " +
		"start-up assertion about the table evaluates to true; for every method of IDbms/ITran/IQuery/ICursor as implemented by the mux client types, the command constant passed to PutCmd selects a handler that " +
		"invokes or references that very interface method (types.Func identity), or calls the same package function as (*DbmsLocal).M, or is one of six frozen session-local handlers; methods that send no command are " +
		"the frozen nine; the byte↔Dir decoding in the GetOne handler is the identity on the Dir constants; per client function that sends a command, the language of its request writes is included in the language " +
		"of the handler's reads and the language of the handler's writes in that of the client's reads, as regular expressions over primitive wire tokens (bool-true, bool-false, byte, varint, raw bytes) obtained by " +
		"inlining every helper down to Write1/WriteString/PutInt64/GetByte/GetN/GetInt64/GetBool, with loops as (…)*, branches as (a|b), constant arguments propagated and bool reads correlated with the branch they decide; " +
		"the error reply of serverSession.request matches the failure branch of ClientSession.Request; the commands without a response are the same on both sides; mux: header and body are written under one hold of " +
		"wlock after putHdr, rw is written only in conn.write, rchs is accessed under lock, the header offsets/widths of putHdr and reader agree and tile HeaderSize, the final flag values agree, WriteBuf reserves " +
		"exactly HeaderSize bytes. Not decided: equality of results (the implementations behind the interfaces), values of non-bool fields, iteration counts of loops; a function the extractor cannot model exactly (wire I/O in a literal, defer, short-circuit operand, labelled control flow, another session's stream) is listed in the notes as not covered instead of being compared approximately (none today)."
}

// ---- the table against the constants

func (a *c40A) table1() {
	c, p := a.c, a.p
	r := "C40.1a K1 every command constant has a handler; the start-up assertion holds"
	var vals []int
	for v := range a.consts {
		vals = append(vals, v)
	}
	sort.Ints(vals)
	for _, v := range vals {
		e, ok := a.byIdx[v]
		c.Obl(r, "handler for commands."+a.consts[v], p.Pos(nodeOr(e.Node, nil)), ok && !e.IsNil,
			fmt.Sprintf("dbms.cmds[%d] is missing or nil: the command %s would fail on the server", v, a.consts[v]))
	}
	c.Floor(r, len(vals), 40, "constants of type commands.Command")
	// init(): assert.That(<expression over cmds[const]>)
	cmdsVar := p.GlobalVar("dbms", "cmds")
	n := 0
	for _, fs := range p.FuncsIn("dbms") {
		if fs.Obj == nil || fs.Obj.Name() != "init" {
			continue
		}
		ForEachNode(fs, func(nd ast.Node) {
			call, ok := nd.(*ast.CallExpr)
			if !ok || len(call.Args) != 1 {
				return
			}
			cal := Callee(fs.Info(), call)
			if cal == nil || cal.Name() != "That" || cal.Pkg() == nil || cal.Pkg().Name() != "assert" {
				return
			}
			mentions := false
			ast.Inspect(call.Args[0], func(m ast.Node) bool {
				if id, ok := m.(*ast.Ident); ok && fs.Info().Uses[id] == types.Object(cmdsVar) {
					mentions = true
				}
				return true
			})
			if !mentions {
				return
			}
			n++
			oob := ""
			env := &AbsEnv{Info: fs.Info(), Atom: func(e ast.Expr) (constant.Value, bool) {
				be, ok := e.(*ast.BinaryExpr)
				if !ok || (be.Op != token.EQL && be.Op != token.NEQ) {
					return nil, false
				}
				for _, pr := range [][2]ast.Expr{{be.X, be.Y}, {be.Y, be.X}} {
					ix, ok := ast.Unparen(pr[0]).(*ast.IndexExpr)
					if !ok || ObjOf(fs.Info(), ix.X) != types.Object(cmdsVar) || !isNilIdent(fs.Info(), pr[1]) {
						continue
					}
					iv := ConstVal(fs.Info(), ix.Index)
					if iv == nil {
						return nil, false
					}
					i, _ := constant.Int64Val(iv)
					ent, ok := a.byIdx[int(i)]
					if !ok {
						oob = fmt.Sprintf("cmds[%d] is out of range (len %d)", i, len(a.table))
						return nil, true
					}
					return constant.MakeBool(ent.IsNil == (be.Op == token.EQL)), true
				}
				return nil, false
			}}
			v := env.expr(call.Args[0])
			okv := v != nil && v.Kind() == constant.Bool && constant.BoolVal(v)
			d := ""
			if !okv {
				d = "the assertion in init() about dbms.cmds does not evaluate to true against the table literal: the server panics at start-up. " + oob
			}
			c.Obl(r, "init assertion about cmds holds", p.Pos(call), okv, d)
		})
	}
	c.Floor(r, n, 1, "start-up assertions about dbms.cmds")
}

func nodeOr(e ast.Expr, _ ast.Node) ast.Node {
	if e == nil {
		return nil
	}
	return e
}

// ---- K9 method ↔ command ↔ handler ↔ interface method

// cmdsSent: command constants sent by f directly or through unexported helpers of dbms.
func (a *c40A) cmdsSent(fs *FuncSrc, depth int) []int {
	out := append([]int{}, a.unitsOf[fs]...)
	if depth == 0 {
		return out
	}
	ForEachNode(fs, func(n ast.Node) {
		call, ok := n.(*ast.CallExpr)
		if !ok {
			return
		}
		cal := Callee(fs.Info(), call)
		if cal == nil || cal.Pkg() != a.dbmsPkg || cal.Exported() || !a.w.fl.isStatic(cal) {
			return
		}
		if cs := a.p.Src(cal); cs != nil && cs != fs {
			out = append(out, a.cmdsSent(cs, depth-1)...)
		}
	})
	sort.Ints(out)
	var ded []int
	for i, v := range out {
		if i == 0 || v != out[i-1] {
			ded = append(ded, v)
		}
	}
	return ded
}

// reach: fs plus the functions of package dbms it calls statically (bounded).
func (a *c40A) reach(fs *FuncSrc, depth int, seen map[*FuncSrc]bool) {
	if seen[fs] || fs == nil || fs.Body == nil {
		return
	}
	seen[fs] = true
	if depth == 0 {
		return
	}
	ForEachNode(fs, func(n ast.Node) {
		if call, ok := n.(*ast.CallExpr); ok {
			if cal := Callee(fs.Info(), call); cal != nil && cal.Pkg() == a.dbmsPkg && a.w.fl.isStatic(cal) {
				a.reach(a.p.Src(cal), depth-1, seen)
			}
		}
	})
}

func (a *c40A) invokes(h *FuncSrc, m *types.Func) bool {
	seen := map[*FuncSrc]bool{}
	a.reach(h, 3, seen)
	found := false
	for fs := range seen {
		ForEachNode(fs, func(n ast.Node) {
			if sel, ok := n.(*ast.SelectorExpr); ok {
				if s := fs.Info().Selections[sel]; s != nil {
					if f, ok := s.Obj().(*types.Func); ok && sameFunc(f, m) {
						found = true
					}
				}
			}
		})
	}
	return found
}

func (a *c40A) directCallees(fs *FuncSrc) map[*types.Func]bool {
	out := map[*types.Func]bool{}
	ForEachNode(fs, func(n ast.Node) {
		if call, ok := n.(*ast.CallExpr); ok {
			if cal := Callee(fs.Info(), call); cal != nil && cal.Pkg() == a.dbmsPkg && a.w.fl.isStatic(cal) {
				if sig := cal.Type().(*types.Signature); sig.Recv() == nil {
					out[cal] = true
				}
			}
		}
	})
	return out
}

func (a *c40A) methods() {
	c, p := a.c, a.p
	r := "C40.1 K9 client method ↔ command ↔ handler ↔ interface method"
	// client methods that send no command of their own
	noCommand := map[string]string{
		"dbms.(*muxSession).DisableTrigger": "panics: DoWithoutTriggers cannot be used by a client",
		"dbms.(*muxSession).EnableTrigger":  "unreachable on a client (DisableTrigger panics first)",
		"dbms.(*muxSession).Schema":         "derived: sends Exec of Database.Schema",
		"dbms.(*muxSession).Unuse":          "panics: only the server can Unuse",
		"dbms.(*muxSession).Use":            "derived from Libraries; panics unless already in use",
		"dbms.(*muxSession).Unwrap":         "identity: a client session has no wrapper",
		"dbms.(*muxTran).Num":               "returns the transaction number received when the transaction was started",
		"dbms.(*muxTran).String":            "formats the locally known transaction number",
		"dbms.(*muxQueryCursor).Tree":       "panics: query Tree is not supported from a client",
	}
	// handlers that serve their command from the session instead of the interface method
	sessionLocal := map[string]string{
		"dbms.cmdAuth":       "authenticates against the nonce kept per connection (serverSession.auth), not per thread as DbmsLocal.Auth",
		"dbms.cmdSessionId":  "the session id lives in the serverSession",
		"dbms.cmdCursors":    "counts the cursors of this session",
		"dbms.cmdEndSession": "closes the serverSession (client Close)",
		"dbms.cmdReadCount":  "returns the constant 0 (marked TODO in the repository): known deviation from local access, not decided here",
		"dbms.cmdWriteCount": "returns the constant 0 (marked TODO in the repository): known deviation from local access, not decided here",
	}
	var ifaces []*types.Named
	for _, nm := range []string{"IDbms", "ITran", "IQuery", "ICursor"} {
		t := p.NamedType("core", nm)
		if !c.need(r, "core."+nm, t) {
			return
		}
		ifaces = append(ifaces, t)
	}
	type key struct{ impl, m *types.Func }
	done := map[key]bool{}
	nSend, nNone, nPairs := 0, 0, 0
	usedLocal, usedNoCmd := map[string]bool{}, map[string]bool{}
	// the pairs (type, interface) are the repository's own assertions `var _ I = (*T)(nil)`
	type pair struct {
		ptr types.Type
		it  *types.Named
	}
	var pairs []pair
	dinfo := p.Pkg("dbms").TypesInfo
	for _, f := range p.Pkg("dbms").Syntax {
		for _, d := range f.Decls {
			gd, ok := d.(*ast.GenDecl)
			if !ok || gd.Tok != token.VAR {
				continue
			}
			for _, sp := range gd.Specs {
				vs := sp.(*ast.ValueSpec)
				if len(vs.Names) != 1 || vs.Names[0].Name != "_" || vs.Type == nil || len(vs.Values) != 1 {
					continue
				}
				it, _ := types.Unalias(dinfo.TypeOf(vs.Type)).(*types.Named)
				vt := dinfo.TypeOf(vs.Values[0])
				if it == nil || vt == nil {
					continue
				}
				for _, want := range ifaces {
					if it.Origin() == want {
						pairs = append(pairs, pair{vt, want})
					}
				}
			}
		}
	}
	{
		for _, pr := range pairs {
			ptr, it := pr.ptr, pr.it
			iface := it.Underlying().(*types.Interface)
			// a client type: some implementation sends a command
			type mi struct {
				m, impl *types.Func
				fs      *FuncSrc
				cmds    []int
			}
			var ms []mi
			client := false
			for i := 0; i < iface.NumMethods(); i++ {
				m := iface.Method(i)
				obj, _, _ := types.LookupFieldOrMethod(ptr, true, a.dbmsPkg, m.Name())
				impl, _ := obj.(*types.Func)
				fs := p.Src(impl)
				if fs == nil {
					continue
				}
				cm := a.cmdsSent(fs, 2)
				if len(cm) > 0 {
					client = true
				}
				ms = append(ms, mi{m, impl.Origin(), fs, cm})
			}
			if !client {
				continue
			}
			nPairs++
			for _, x := range ms {
				k := key{x.impl, x.m}
				if done[k] {
					continue
				}
				done[k] = true
				what := x.fs.name + " implements " + it.Obj().Name() + "." + x.m.Name()
				if len(x.cmds) == 0 {
					nNone++
					_, okN := noCommand[x.fs.name]
					usedNoCmd[x.fs.name] = true
					c.Obl(r, what+": sends no command", p.Pos(x.fs.Decl), okN,
						"the client implementation sends no command and is not one of the frozen local methods: the operation would not reach the server")
					continue
				}
				nSend++
				if len(x.cmds) != 1 {
					c.Obl(r, what+": sends exactly one command", p.Pos(x.fs.Decl), false, fmt.Sprintf("commands %v", x.cmds))
					continue
				}
				cmd := x.cmds[0]
				e, okE := a.byIdx[cmd]
				if !okE || e.IsNil {
					c.Obl(r, what+": command has a handler", p.Pos(x.fs.Decl), false, fmt.Sprintf("command %d (%s) has no handler in dbms.cmds", cmd, a.consts[cmd]))
					continue
				}
				why := ""
				good := a.invokes(e.Src, x.m)
				if !good && it.Obj().Name() == "IDbms" {
					// same package function as the local implementation
					if li := p.Src(p.DeclaredMethod("dbms", "DbmsLocal", x.m.Name())); li != nil {
						lc := a.directCallees(li)
						for f := range a.directCallees(e.Src) {
							if lc[f] {
								good = true
								why = "calls " + funcName(f) + " like (*DbmsLocal)." + x.m.Name()
							}
						}
					}
				}
				if !good {
					if _, okL := sessionLocal[e.Src.name]; okL {
						good = true
						usedLocal[e.Src.name] = true
						why = "frozen session-local handler"
					}
				}
				d := why
				if !good {
					d = fmt.Sprintf("%s sends commands.%s, whose handler %s neither invokes %s.%s nor shares a function with the local implementation: the request is served by a different operation",
						x.fs.name, a.consts[cmd], e.Src.name, it.Obj().Name(), x.m.Name())
				}
				c.Obl(r, what+" → commands."+a.consts[cmd]+" → handler invokes the method", p.Pos(e.Node), good, d)
			}
		}
	}
	c.Floor(r, nPairs, 4, "client type / interface pairs (muxSession, muxTran, muxQuery, muxCursor)")
	c.Floor(r, nSend, 42, "interface methods implemented by sending a command")
	c.Floor(r, nNone, 9, "interface methods implemented locally")
	c.Floor(r, len(usedLocal), 6, "frozen session-local handlers in use")
	c.Stats["c40_methods_sending"] = nSend

	// K9: the direction byte of GetOne
	a.dirDecode()
}

// dirDecode: in a handler, `switch <byte read> { case k: v = D }` with D a constant of
// type core.Dir must be the identity (the client sends byte(dir)).
func (a *c40A) dirDecode() {
	c, p := a.c, a.p
	r := "C40.1b K9 direction byte decoding is the identity on the Dir constants"
	dirT := p.NamedType("core", "Dir")
	if !c.need(r, "core.Dir", dirT) {
		return
	}
	dirs := map[string]bool{} // constant values of type Dir
	sc := p.Pkg("core").Types.Scope()
	for _, nm := range sc.Names() {
		if k, ok := sc.Lookup(nm).(*types.Const); ok && types.Identical(k.Type(), dirT) {
			dirs[k.Val().ExactString()] = true
		}
	}
	n := 0
	covered := map[string]bool{}
	var hs []*FuncSrc
	for h := range a.handlers {
		hs = append(hs, h)
	}
	sort.Slice(hs, func(i, j int) bool { return hs[i].name < hs[j].name })
	for _, h := range hs {
		ForEachNode(h, func(nd ast.Node) {
			sw, ok := nd.(*ast.SwitchStmt)
			if !ok || sw.Tag == nil || !a.w.nodeHasWire(h, sw.Tag) {
				return
			}
			for _, cl := range sw.Body.List {
				cc := cl.(*ast.CaseClause)
				for _, st := range cc.Body {
					as, ok := st.(*ast.AssignStmt)
					if !ok || len(as.Lhs) != 1 || len(as.Rhs) != 1 {
						continue
					}
					t := h.Info().TypeOf(as.Lhs[0])
					v := ConstVal(h.Info(), as.Rhs[0])
					if t == nil || !types.Identical(t, dirT) || v == nil {
						continue
					}
					for _, ce := range cc.List {
						kv := ConstVal(h.Info(), ce)
						n++
						same := kv != nil && constant.Compare(constant.ToInt(kv), token.EQL, constant.ToInt(v))
						covered[v.ExactString()] = true
						c.Obl(r, h.name+": case decodes to the Dir constant with the same byte value", p.Pos(ce), same,
							"the client sends byte(dir); the handler maps that byte to a different Dir: queries run in the wrong direction / mode")
					}
				}
			}
		})
	}
	c.Floor(r, n, 5, "decoded direction bytes")
	if n > 0 {
		var missing []string
		for d := range dirs {
			if !covered[d] {
				missing = append(missing, d)
			}
		}
		sort.Strings(missing)
		c.Obl(r, "every Dir constant is decoded", "", len(missing) == 0, "Dir values without a case: "+strings.Join(missing, " "))
	}
}

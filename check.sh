#!/bin/bash
# usage: check.sh <ID> <quick|thorough>
# Builds the analyser if needed (offline) and decides property <ID> from /repo's current source.
cd "$(dirname "$0")"
export GOFLAGS=-mod=mod GOPROXY=off GOSUMDB=off GOTOOLCHAIN=local GOWORK=off
if [ ! -x gsv/gsv ] || [ -n "$(find gsv -name '*.go' -newer gsv/gsv -print -quit)" ]; then
  (cd gsv && go1.26.8 build -o gsv .) || { echo "gsv: build failed" >&2; exit 2; }
fi
exec ./gsv/gsv check "$1" --tier "${2:-quick}"

package main

// C42 transaction blocks: builtin.Transaction's deferred complete/rollback closure
// (K21: branch-correlated path enumeration) and the SuTran typestate (K4, K2, K14).

import (
	"fmt"
	"go/ast"
	"go/constant"
	"go/token"
	"go/types"
	"sort"
	"strings"
)

func init() { register("C42", checkC42, "./builtin/...") }

// ---- K21: a tiny symbolic executor for one closure.
//
// A scenario fixes the two things the closure cannot influence: whether the
// transaction was already ended when the closure starts (E) and what recover()
// yields (nil / BlockReturn / another value).  Conditions are canonicalised to
// those facts, so `e != nil` tested twice is one fact and `e == BlockReturn`
// implies `e != nil`.  Any other condition forks uncorrelated (both arms).

type c42Scenario struct {
	ended bool
	class int // 0 nil, 1 BlockReturn, 2 other
}

var c42ClassName = []string{"nothing was thrown", "BlockReturn was thrown", "an exception was thrown"}

type c42Path struct {
	events   []string // "recover", "Complete", "Rollback", "panic(e)", "panic(?)", "Ended?"
	facts    map[string]bool
	terminal string // "" running, "return", "panic(e)", "panic(?)"
	endedOK  bool   // E fact still valid (no Complete/Rollback since entry)
}

func (p *c42Path) clone() *c42Path {
	q := &c42Path{events: append([]string{}, p.events...), facts: map[string]bool{}, terminal: p.terminal, endedOK: p.endedOK}
	for k, v := range p.facts {
		q.facts[k] = v
	}
	return q
}

type c42Exec struct {
	info        *types.Info
	sc          c42Scenario
	stVar       types.Object // the SuTran variable
	eVars       map[types.Object]bool
	ended       *types.Func
	complete    *types.Func
	rollback    *types.Func
	blockReturn types.Object
	unsupported []string
}

func (x *c42Exec) isRecover(e ast.Expr) bool {
	call, ok := ast.Unparen(e).(*ast.CallExpr)
	return ok && IsBuiltin(x.info, call, "recover")
}

func (x *c42Exec) onSt(call *ast.CallExpr, f *types.Func) bool {
	if !sameFunc(Callee(x.info, call), f) {
		return false
	}
	sel, ok := ast.Unparen(call.Fun).(*ast.SelectorExpr)
	if !ok {
		return false
	}
	id, ok := ast.Unparen(sel.X).(*ast.Ident)
	return ok && x.info.Uses[id] == x.stVar
}

func (x *c42Exec) isE(e ast.Expr) bool {
	id, ok := ast.Unparen(e).(*ast.Ident)
	if !ok {
		return false
	}
	o := x.info.Uses[id]
	return o != nil && x.eVars[o]
}

// atom evaluates an atomic condition: (value, known).  Unknown atoms fork.
func (x *c42Exec) atom(p *c42Path, e ast.Expr) (val bool, known bool, key string) {
	e = ast.Unparen(e)
	if call, ok := e.(*ast.CallExpr); ok && x.onSt(call, x.ended) {
		p.events = append(p.events, "Ended?")
		if p.endedOK {
			return x.sc.ended, true, ""
		}
		return true, true, "" // after Complete/Rollback the transaction is ended
	}
	if be, ok := e.(*ast.BinaryExpr); ok && (be.Op == token.EQL || be.Op == token.NEQ) {
		for _, pr := range [][2]ast.Expr{{be.X, be.Y}, {be.Y, be.X}} {
			if !x.isE(pr[0]) {
				continue
			}
			var eq, ok bool
			if isNilIdent(x.info, pr[1]) {
				eq, ok = x.sc.class == 0, true
			} else if o := ObjOf(x.info, pr[1]); o != nil && o == x.blockReturn {
				eq, ok = x.sc.class == 1, true
			}
			if ok {
				return eq == (be.Op == token.EQL), true, ""
			}
		}
	}
	if v := ConstVal(x.info, e); v != nil && v.Kind() == constant.Bool {
		return constant.BoolVal(v), true, ""
	}
	key = "cond:" + exprStr(e)
	if v, ok := p.facts[key]; ok {
		return v, true, ""
	}
	return false, false, key
}

// cond evaluates a condition on every path of ps; returns the paths on which it is
// true and those on which it is false.
func (x *c42Exec) cond(ps []*c42Path, e ast.Expr) (t, f []*c42Path) {
	e = ast.Unparen(e)
	switch c := e.(type) {
	case *ast.UnaryExpr:
		if c.Op == token.NOT {
			f, t = x.cond(ps, c.X)
			return
		}
	case *ast.BinaryExpr:
		if c.Op == token.LAND {
			t1, f1 := x.cond(ps, c.X)
			t2, f2 := x.cond(t1, c.Y)
			return t2, append(f1, f2...)
		}
		if c.Op == token.LOR {
			t1, f1 := x.cond(ps, c.X)
			t2, f2 := x.cond(f1, c.Y)
			return append(t1, t2...), f2
		}
	}
	for _, p := range ps {
		x.calls(p, e, true)
		v, known, key := x.atom(p, e)
		if known {
			if v {
				t = append(t, p)
			} else {
				f = append(f, p)
			}
			continue
		}
		q := p.clone()
		p.facts[key] = true
		q.facts[key] = false
		t = append(t, p)
		f = append(f, q)
	}
	return
}

// calls records the events of the calls inside expression e (evaluation order);
// skipAtom: e itself is a condition atom handled by atom().
func (x *c42Exec) calls(p *c42Path, e ast.Node, skipAtom bool) {
	if e == nil {
		return
	}
	var list []*ast.CallExpr
	ast.Inspect(e, func(n ast.Node) bool {
		switch n := n.(type) {
		case *ast.FuncLit:
			return false
		case *ast.CallExpr:
			list = append(list, n)
		}
		return true
	})
	// inner calls first (arguments are evaluated before the call)
	sort.SliceStable(list, func(i, j int) bool { return list[i].End() < list[j].End() })
	for _, call := range list {
		if p.terminal != "" {
			return
		}
		switch {
		case skipAtom && ast.Node(call) == ast.Unparen(e.(ast.Expr)):
		case x.onSt(call, x.ended):
			if !skipAtom {
				p.events = append(p.events, "Ended?")
			}
		case IsBuiltin(x.info, call, "recover"):
			p.events = append(p.events, "recover")
		case x.onSt(call, x.complete):
			p.events = append(p.events, "Complete")
			p.endedOK = false
		case x.onSt(call, x.rollback):
			p.events = append(p.events, "Rollback")
			p.endedOK = false
		case IsBuiltin(x.info, call, "panic"):
			if len(call.Args) == 1 && x.isE(call.Args[0]) {
				p.terminal = "panic(e)"
			} else {
				p.terminal = "panic(?)"
			}
			p.events = append(p.events, p.terminal)
		}
	}
}

func (x *c42Exec) live(ps []*c42Path) (live, done []*c42Path) {
	for _, p := range ps {
		if p.terminal == "" {
			live = append(live, p)
		} else {
			done = append(done, p)
		}
	}
	return
}

// stmts runs a statement list; returns the paths that fall off its end and those
// that terminated (return / panic).
func (x *c42Exec) stmts(ps []*c42Path, list []ast.Stmt) (out, done []*c42Path) {
	out = ps
	for _, s := range list {
		var d []*c42Path
		out, d = x.stmt(out, s)
		done = append(done, d...)
	}
	return
}

func (x *c42Exec) stmt(ps []*c42Path, s ast.Stmt) (out, done []*c42Path) {
	if len(ps) == 0 {
		return nil, nil
	}
	switch s := s.(type) {
	case nil, *ast.EmptyStmt:
		return ps, nil
	case *ast.BlockStmt:
		return x.stmts(ps, s.List)
	case *ast.ExprStmt:
		for _, p := range ps {
			x.calls(p, s.X, false)
		}
		return x.live(ps)
	case *ast.AssignStmt:
		for _, p := range ps {
			for _, r := range s.Rhs {
				x.calls(p, r, false)
			}
		}
		if len(s.Lhs) == len(s.Rhs) {
			for i, l := range s.Lhs {
				id, ok := l.(*ast.Ident)
				if !ok {
					continue
				}
				o := x.info.Defs[id]
				if o == nil {
					o = x.info.Uses[id]
				}
				if o == nil {
					continue
				}
				if x.isRecover(s.Rhs[i]) || x.isE(s.Rhs[i]) {
					x.eVars[o] = true
				} else if x.eVars[o] {
					x.unsupported = append(x.unsupported, "the recovered value's variable is re-assigned")
				}
			}
		}
		return x.live(ps)
	case *ast.DeclStmt:
		gd, ok := s.Decl.(*ast.GenDecl)
		if !ok {
			break
		}
		for _, sp := range gd.Specs {
			vs, ok := sp.(*ast.ValueSpec)
			if !ok {
				continue
			}
			for _, p := range ps {
				for _, v := range vs.Values {
					x.calls(p, v, false)
				}
			}
			if len(vs.Names) == len(vs.Values) {
				for i, nm := range vs.Names {
					if x.isRecover(vs.Values[i]) || x.isE(vs.Values[i]) {
						x.eVars[x.info.Defs[nm]] = true
					}
				}
			}
		}
		return x.live(ps)
	case *ast.ReturnStmt:
		for _, p := range ps {
			for _, r := range s.Results {
				x.calls(p, r, false)
			}
			if p.terminal == "" {
				p.terminal = "return"
			}
		}
		return nil, ps
	case *ast.IfStmt:
		var d0 []*c42Path
		if s.Init != nil {
			ps, d0 = x.stmt(ps, s.Init)
		}
		t, f := x.cond(ps, s.Cond)
		t, dt0 := x.live(t)
		f, df0 := x.live(f)
		to, td := x.stmt(t, s.Body)
		fo, fd := f, []*c42Path(nil)
		if s.Else != nil {
			fo, fd = x.stmt(f, s.Else)
		}
		done = append(append(append(append(d0, dt0...), df0...), td...), fd...)
		return append(to, fo...), done
	case *ast.SwitchStmt:
		if s.Init != nil {
			var d0 []*c42Path
			ps, d0 = x.stmt(ps, s.Init)
			done = append(done, d0...)
		}
		rest := ps
		var deflt *ast.CaseClause
		for _, cl := range s.Body.List {
			cc := cl.(*ast.CaseClause)
			for _, st := range cc.Body {
				if br, ok := st.(*ast.BranchStmt); ok && br.Tok != token.BREAK {
					x.unsupported = append(x.unsupported, "fallthrough / goto in switch")
				}
			}
			if cc.List == nil {
				deflt = cc
				continue
			}
			var taken []*c42Path
			for _, ce := range cc.List {
				var c ast.Expr = ce
				if s.Tag != nil {
					c = &ast.BinaryExpr{X: s.Tag, Op: token.EQL, Y: ce, OpPos: ce.Pos()}
				}
				var t []*c42Path
				t, rest = x.cond(rest, c)
				taken = append(taken, t...)
			}
			o, d := x.stmts(taken, c42DropBreak(cc.Body))
			out = append(out, o...)
			done = append(done, d...)
		}
		if deflt != nil {
			o, d := x.stmts(rest, c42DropBreak(deflt.Body))
			out = append(out, o...)
			done = append(done, d...)
		} else {
			out = append(out, rest...)
		}
		return out, done
	}
	x.unsupported = append(x.unsupported, fmt.Sprintf("%T", s))
	return ps, nil
}

func c42DropBreak(body []ast.Stmt) []ast.Stmt {
	if n := len(body); n > 0 {
		if br, ok := body[n-1].(*ast.BranchStmt); ok && br.Tok == token.BREAK && br.Label == nil {
			return body[:n-1]
		}
	}
	return body
}

func c42Has(ev []string, s string) bool {
	for _, e := range ev {
		if e == s {
			return true
		}
	}
	return false
}

func c42Index(ev []string, s string) int {
	for i, e := range ev {
		if e == s {
			return i
		}
	}
	return -1
}

func checkC42(c *Ctx) string {
	p := c.P
	r1 := "C42.1 K4 the block runs under the deferred complete/rollback closure"
	r2 := "C42.2 K21 outcome of the deferred closure per scenario"
	trFn := c.function(r1, "builtin", "Transaction")
	newSuTran := p.Func("core", "NewSuTran")
	thCall := p.DeclaredMethod("core", "Thread", "Call")
	ended := p.DeclaredMethod("core", "SuTran", "Ended")
	complete := p.DeclaredMethod("core", "SuTran", "Complete")
	rollback := p.DeclaredMethod("core", "SuTran", "Rollback")
	blockReturn := p.Lookup("core", "BlockReturn")
	okA := c.need(r1, "core.NewSuTran", newSuTran)
	okA = c.need(r1, "core.(*Thread).Call", thCall) && okA
	okA = c.need(r1, "core.(*SuTran).Ended", ended) && okA
	okA = c.need(r1, "core.(*SuTran).Complete", complete) && okA
	okA = c.need(r1, "core.(*SuTran).Rollback", rollback) && okA
	if blockReturn == nil {
		c.Missing(r1, "core.BlockReturn")
		okA = false
	}
	if trFn != nil && okA {
		c42Transaction(c, r1, r2, trFn, newSuTran, thCall, ended, complete, rollback, blockReturn)
	}
	c42Typestate(c)
	checkCompleteOutcome(c, "C42.6 K4c the completed status is stored only after a successful commit")
	checkAbortAlwaysQueued(c, "C42.7 K5 an abort request always reaches the checker")
	return "Shape of builtin.Transaction's block form and of core.SuTran. Decided: the block is called (Thread.Call with the SuTran made by NewSuTran) only after the defer of exactly one " +
		"recovering closure; that closure is executed symbolically for the 2x3 scenarios {transaction already ended, not ended} x {nothing thrown, BlockReturn thrown, other value thrown} with " +
		"conditions canonicalised to those facts: not ended & exception => Rollback, no Complete, then panic(e); not ended & (nothing | BlockReturn) => Complete, no Rollback; recovered non-nil => " +
		"the path ends in panic(e) (never swallowed), recovered nil => no panic; already ended => neither Complete nor Rollback. SuTran: every method calling st.itran.* except Complete/Rollback/String " +
		"calls ckActive first; ckActive panics and Ended returns true exactly for the non-active states (evaluated over the declared stStatus constants); status is stored only by Complete and Rollback; " +
		"itran.Complete / itran.Abort are reached only on the edges where the status is neither completed nor aborted, and Complete/Rollback leave a non-active status on every normal return that ended the " +
		"underlying transaction. Not decided: what the block itself does, the behaviour of ITran implementations, BlockBreak/BlockContinue handling inside Thread.Call."
}

func c42Transaction(c *Ctx, r1, r2 string, trFn *FuncSrc, newSuTran, thCall, ended, complete, rollback *types.Func, blockReturn types.Object) {
	p := c.P
	info := trFn.Info()
	defs := buildDefs(trFn)
	evNew := CallOf("NewSuTran", newSuTran)
	// the deferred closures that recover
	isRecovering := func(lit *ast.FuncLit) bool {
		found := false
		ast.Inspect(lit.Body, func(n ast.Node) bool {
			if call, ok := n.(*ast.CallExpr); ok && IsBuiltin(info, call, "recover") {
				found = true
			}
			return true
		})
		return found
	}
	evDefer := Ev{"defer-closure", func(fs *FuncSrc, n ast.Node) bool {
		d, ok := n.(*ast.DeferStmt)
		if !ok {
			return false
		}
		lit, ok := d.Call.Fun.(*ast.FuncLit)
		return ok && isRecovering(lit)
	}}
	evBlock := Ev{"block-call", func(fs *FuncSrc, n ast.Node) bool {
		call, ok := n.(*ast.CallExpr)
		if !ok || !sameFunc(Callee(fs.Info(), call), thCall) {
			return false
		}
		for _, a := range call.Args {
			if defs.MentionsEv(fs, a, evNew) {
				return true
			}
		}
		return false
	}}
	fl := &Flow{P: p, Node: Labeler(evDefer, evBlock)}
	res := fl.Analyze(trFn)
	blocks := res.Of("block-call")
	var outer []*Site
	for _, s := range blocks {
		if s.Fn == trFn {
			outer = append(outer, s)
		}
	}
	c.Floor(r1, len(outer), 1, "calls of the block with the new transaction in builtin.Transaction")
	for _, s := range outer {
		c.Obl(r1, "Transaction: block call preceded by the defer of the recovering closure", p.Pos(s.Node), s.Before.Has("defer-closure"),
			"the block is called on a path where no complete/rollback closure has been deferred: the transaction would be left open, neither committed nor rolled back")
	}
	defers := res.Of("defer-closure")
	c.Obl(r1, "Transaction: exactly one recovering deferred closure", p.Pos(trFn.Decl), len(defers) == 1,
		fmt.Sprintf("%d deferred closures with recover(): the outcome of the block would be decided twice (or never)", len(defers)))
	if len(defers) != 1 || len(outer) == 0 {
		return
	}
	// the SuTran variable passed to the block
	var stVar types.Object
	for _, a := range outer[0].Node.(*ast.CallExpr).Args {
		if id, ok := ast.Unparen(a).(*ast.Ident); ok && defs.MentionsEv(trFn, a, evNew) {
			stVar = info.Uses[id]
		}
	}
	if stVar == nil {
		c.Missing(r2, "the SuTran variable passed to the block")
		return
	}
	lit := defers[0].Node.(*ast.DeferStmt).Call.Fun.(*ast.FuncLit)
	pos := p.Pos(lit)
	type want struct {
		key, breaks string
		check       func(pa *c42Path) string
	}
	for _, sc := range []c42Scenario{{false, 0}, {false, 1}, {false, 2}, {true, 0}, {true, 1}, {true, 2}} {
		x := &c42Exec{info: info, sc: sc, stVar: stVar, eVars: map[types.Object]bool{}, ended: ended, complete: complete,
			rollback: rollback, blockReturn: blockReturn}
		start := &c42Path{facts: map[string]bool{}, endedOK: true}
		out, done := x.stmts([]*c42Path{start}, lit.Body.List)
		for _, pa := range out {
			pa.terminal = "return"
		}
		paths := append(out, done...)
		st := "transaction not ended"
		if sc.ended {
			st = "transaction already ended by the block"
		}
		key := fmt.Sprintf("Transaction defer [%s, %s]", st, c42ClassName[sc.class])
		if len(x.unsupported) > 0 {
			c.Obl(r2, key, pos, false, "the closure contains a construct the path enumeration does not model ("+strings.Join(x.unsupported, "; ")+"): no verdict for this scenario")
			continue
		}
		var bad []string
		for _, pa := range paths {
			if msg := c42Judge(sc, pa); msg != "" {
				bad = append(bad, msg+" (path: "+strings.Join(pa.events, " → ")+" → "+pa.terminal+")")
			}
		}
		sort.Strings(bad)
		c.Obl(r2, key, pos, len(bad) == 0 && len(paths) > 0, strings.Join(bad, "; "))
	}
	c.Stats["c42_scenarios"] = 6
}

// c42Judge: "" if the path is what the property demands in the scenario.
func c42Judge(sc c42Scenario, pa *c42Path) string {
	rec := c42Has(pa.events, "recover")
	comp := c42Has(pa.events, "Complete")
	roll := c42Has(pa.events, "Rollback")
	if pa.terminal == "panic(?)" {
		return "the closure panics with a value other than the recovered one"
	}
	if sc.ended {
		if comp || roll {
			return "Complete/Rollback is called although the block already ended the transaction (Complete after an explicit Rollback panics 'already aborted')"
		}
		if rec {
			if sc.class != 0 && pa.terminal != "panic(e)" {
				return "the recovered exception is swallowed"
			}
			if sc.class == 0 && pa.terminal != "return" {
				return "panic(nil) although nothing was thrown"
			}
		} else if pa.terminal != "return" {
			return "panics although recover() was not called"
		}
		return ""
	}
	if !rec {
		return "recover() is not called, so the closure cannot tell whether the block threw"
	}
	switch sc.class {
	case 0:
		if !comp || roll {
			return "the block finished normally but the transaction is not completed (Complete, no Rollback)"
		}
		if pa.terminal != "return" {
			return "panic(nil) although nothing was thrown"
		}
	case 1:
		if !comp || roll {
			return "the block returned from the enclosing function (BlockReturn) but the transaction is not completed"
		}
		if pa.terminal != "panic(e)" {
			return "BlockReturn is swallowed: the enclosing function would not return"
		}
	case 2:
		if !roll || comp {
			return "the block threw but the transaction is not rolled back (Rollback, no Complete)"
		}
		if pa.terminal != "panic(e)" {
			return "the exception is swallowed instead of propagating"
		}
		if i, j := c42Index(pa.events, "Rollback"), c42Index(pa.events, "panic(e)"); i > j {
			return "re-panic before Rollback"
		}
	}
	if i, j := c42Index(pa.events, "recover"), c42Index(pa.events, "Complete"); j >= 0 && i > j {
		return "Complete is decided before recover()"
	}
	return ""
}

// ---- SuTran typestate

func c42Typestate(c *Ctx) {
	p := c.P
	r3 := "C42.3 K4 SuTran methods that use the underlying transaction check ckActive first"
	r4 := "C42.4 K14 ckActive / Ended agree with the status constants"
	r5 := "C42.5 K2+K4 status transitions of SuTran"
	itran := p.Field("core", "SuTran", "itran")
	status := p.Field("core", "SuTran", "status")
	ckActive := p.DeclaredMethod("core", "SuTran", "ckActive")
	stType := p.NamedType("core", "stStatus")
	stActive := p.ConstObj("core", "stActive")
	if !c.need(r3, "core.SuTran.itran", itran) || !c.need(r3, "core.SuTran.status", status) || !c.need(r3, "core.(*SuTran).ckActive", ckActive) ||
		!c.need(r4, "core.stStatus", stType) || !c.need(r4, "core.stActive", stActive) {
		return
	}
	// the declared states
	states := map[string]constant.Value{}
	scope := p.Pkg("core").Types.Scope()
	for _, nm := range scope.Names() {
		if k, ok := scope.Lookup(nm).(*types.Const); ok && types.Identical(k.Type(), stType) {
			states[nm] = k.Val()
		}
	}
	c.Floor(r4, len(states), 3, "constants of type stStatus")

	// frozen exceptions: methods that use st.itran without ckActive
	exempt := map[string]string{
		"core.(*SuTran).Complete": "decides on st.status itself (no-op when completed, panic when aborted) — checked by C42.5",
		"core.(*SuTran).Rollback": "decides on st.status itself (no-op when aborted, panic when completed) — checked by C42.5",
		"core.(*SuTran).String":   "only formats the transaction's name; valid after the transaction ended",
	}
	// every read of the field, in the whole program (st.itran.M(...) or st.itran passed on)
	evItran := UseOfField("itran", itran)
	rootObj := func(info *types.Info, e ast.Expr) types.Object {
		if id := rootIdent(e); id != nil {
			return info.Uses[id]
		}
		return nil
	}
	evCk := func(fs *FuncSrc, n ast.Node) []string {
		call, ok := n.(*ast.CallExpr)
		if !ok || !sameFunc(Callee(fs.Info(), call), ckActive) {
			return nil
		}
		if sel, ok := ast.Unparen(call.Fun).(*ast.SelectorExpr); ok {
			if o := rootObj(fs.Info(), sel.X); o != nil {
				return []string{fmt.Sprintf("ckActive:%p", o)}
			}
		}
		return nil
	}
	users := p.FuncsWith(nil, evItran)
	var ufs []*FuncSrc
	for fs := range users {
		ufs = append(ufs, fs)
	}
	sort.Slice(ufs, func(i, j int) bool { return ufs[i].name < ufs[j].name })
	nGuarded, nExempt := 0, 0
	for _, fs := range ufs {
		if _, ex := exempt[fs.name]; ex {
			nExempt++
			continue
		}
		par := parentMap(fs.Body)
		fl := &Flow{P: p, Node: combine(Labeler(evItran), evCk)}
		res := fl.Analyze(fs)
		for _, s := range res.Of("itran") {
			nGuarded++
			how := "passed on as a value"
			if sel, ok := par[s.Node].(*ast.SelectorExpr); ok && sel.X == s.Node {
				how = "call of " + sel.Sel.Name
			}
			o := rootObj(fs.Info(), s.Node.(*ast.SelectorExpr).X)
			ok := o != nil && s.Before.Has(fmt.Sprintf("ckActive:%p", o))
			c.Obl(r3, fs.name+": ckActive before use of the underlying transaction ("+how+")", p.Pos(s.Node), ok,
				"the underlying transaction is used on a path without ckActive() on the same SuTran: an ended (committed / rolled back) transaction would be used again")
		}
	}
	c.Floor(r3, nGuarded, 9, "guarded uses of SuTran.itran")
	c.Floor(r3, nExempt, 3, "SuTran methods that decide on the status themselves (Complete, Rollback, String)")

	// ---- K14: ckActive panics iff status != stActive; Ended returns status != stActive
	evalOver := func(fs *FuncSrc, f func(name string, v constant.Value, r absResult)) {
		for nm, v := range states {
			env := &AbsEnv{Info: fs.Info(), Atom: func(e ast.Expr) (constant.Value, bool) {
				if FieldOf(fs.Info(), e) == status {
					return v, true
				}
				return nil, false
			}}
			f(nm, v, env.run(fs.Body))
		}
	}
	names := make([]string, 0, len(states))
	for nm := range states {
		names = append(names, nm)
	}
	sort.Strings(names)
	if fs := c.src(r4, ckActive, "core.(*SuTran).ckActive"); fs != nil {
		res := map[string]absResult{}
		evalOver(fs, func(nm string, v constant.Value, r absResult) { res[nm] = r })
		for _, nm := range names {
			r := res[nm]
			active := constant.Compare(states[nm], token.EQL, stActive.Val())
			ok := r.Unknown == "" && r.Panics == !active
			c.Obl(r4, "ckActive in state "+nm, p.Pos(fs.Decl), ok,
				fmt.Sprintf("ckActive must panic exactly in the non-active states (state %s: panics=%v unknown=%q)", nm, r.Panics, r.Unknown))
		}
	}
	if fs := c.method(r4, "core", "SuTran", "Ended"); fs != nil {
		res := map[string]absResult{}
		evalOver(fs, func(nm string, v constant.Value, r absResult) { res[nm] = r })
		for _, nm := range names {
			r := res[nm]
			active := constant.Compare(states[nm], token.EQL, stActive.Val())
			ok := r.Unknown == "" && !r.Panics && len(r.Returns) == 1 && r.Returns[0] != nil && r.Returns[0].Kind() == constant.Bool &&
				constant.BoolVal(r.Returns[0]) == !active
			c.Obl(r4, "Ended in state "+nm, p.Pos(fs.Decl), ok,
				"Ended() must be true exactly in the non-active states: the block form of Transaction completes / rolls back only when it is false")
		}
	}

	// ---- K2: writers of status
	c.Writers(r5, "SuTran.status", nil, StoreTo("", true, status), []string{"core.(*SuTran).Complete", "core.(*SuTran).Rollback"}, 2)

	// ---- K4c: itran.Complete / itran.Abort only on the edges where the status is neither completed nor aborted
	itComplete := p.IfaceMethod("core", "ITran", "Complete")
	itAbort := p.IfaceMethod("core", "ITran", "Abort")
	if !c.need(r5, "core.ITran.Complete", itComplete) || !c.need(r5, "core.ITran.Abort", itAbort) {
		return
	}
	implies := map[string][]string{}
	for _, a := range names {
		for _, b := range names {
			if a != b {
				implies["@status=="+a] = append(implies["@status=="+a], "@status!="+b)
			}
		}
	}
	stateName := func(info *types.Info, e ast.Expr) string {
		v := ConstVal(info, e)
		t := info.TypeOf(e)
		if v == nil || t == nil || !types.Identical(t, stType) {
			return ""
		}
		for _, nm := range names {
			if constant.Compare(states[nm], token.EQL, v) {
				return nm
			}
		}
		return ""
	}
	edge := func(fs *FuncSrc, cond ast.Expr, truth bool) []string {
		be, ok := ast.Unparen(cond).(*ast.BinaryExpr)
		if !ok || (be.Op != token.EQL && be.Op != token.NEQ) {
			return nil
		}
		for _, pr := range [][2]ast.Expr{{be.X, be.Y}, {be.Y, be.X}} {
			if FieldOf(fs.Info(), pr[0]) != status {
				continue
			}
			if nm := stateName(fs.Info(), pr[1]); nm != "" {
				if (be.Op == token.EQL) == truth {
					return []string{"@status==" + nm}
				}
				return []string{"@status!=" + nm}
			}
		}
		return nil
	}
	storeOf := func(fs *FuncSrc, n ast.Node) []string {
		as, ok := n.(*ast.AssignStmt)
		if !ok || len(as.Lhs) != len(as.Rhs) {
			return nil
		}
		var out []string
		for i, l := range as.Lhs {
			if lhsField(fs.Info(), l, false) != status {
				continue
			}
			nm := stateName(fs.Info(), as.Rhs[i])
			if nm == "" {
				out = append(out, "status=?")
			} else {
				out = append(out, "status="+nm)
				if !constant.Compare(states[nm], token.EQL, stActive.Val()) {
					out = append(out, "status=ended")
				}
			}
		}
		return out
	}
	var nonActive []string
	for _, nm := range names {
		if !constant.Compare(states[nm], token.EQL, stActive.Val()) {
			nonActive = append(nonActive, nm)
		}
	}
	for _, spec := range []struct {
		meth  string
		inner *types.Func
		what  string
	}{{"Complete", itComplete, "itran.Complete"}, {"Rollback", itAbort, "itran.Abort"}} {
		fs := c.method(r5, "core", "SuTran", spec.meth)
		if fs == nil {
			continue
		}
		fl := &Flow{P: p, Node: combine(Labeler(CallOf(spec.what, spec.inner)), storeOf), Edge: edge, Implies: implies}
		res := fl.Analyze(fs)
		sites := res.Of(spec.what)
		c.Floor(r5, len(sites), 1, "calls of "+spec.what+" in SuTran."+spec.meth)
		for _, s := range sites {
			ok := true
			for _, nm := range nonActive {
				if !s.Before.Has("@status!=" + nm) {
					ok = false
				}
			}
			c.Obl(r5, "SuTran."+spec.meth+": "+spec.what+" only while active", p.Pos(s.Node), ok,
				"the underlying transaction is ended on a path where the status was not compared unequal to every non-active state: a second Complete/Rollback would end it twice")
		}
		for _, s := range sites {
			c.Obl(r5, "SuTran."+spec.meth+": a non-active status is stored on every normal path through "+spec.what, p.Pos(s.Node),
				s.Before.Has("status=ended") || s.Follows("status=ended"),
				"the method ends the underlying transaction and can return with status still active: Ended() stays false and the Transaction block form would complete / roll back again")
		}
		for _, s := range res.Of("status=?") {
			c.Obl(r5, "SuTran."+spec.meth+": status is assigned a declared constant", p.Pos(s.Node), false, "non-constant status")
		}
		for _, s := range res.Of("status=" + stActive.Name()) {
			c.Obl(r5, "SuTran."+spec.meth+": status never returns to active", p.Pos(s.Node), false, "an ended transaction is made active again")
		}
	}
}

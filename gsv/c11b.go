package main

// C11.6: a chunk whose first key equals the key of the last buffered slot is never passed
// through by the k-way merge (the two slots for one key have to be combined; passing the chunk
// through leaves the key twice in the result).  Added after seeded change C11-2.
// Decided by folding (*merge).passthru under "the buffer is not empty and the two keys are
// equal" with every other leaf unknown: the fold must reach `return false` before outputChunk.

import (
	"go/ast"
	"go/constant"
	"go/token"
	"go/types"
)

func checkPassthruRefusesEqualKey(c *Ctx, rule string) {
	p := c.P
	fs := c.method(rule, "db19/index/ixbuf", "merge", "passthru")
	out := p.DeclaredMethod("db19/index/ixbuf", "merge", "outputChunk")
	first := p.DeclaredMethod("db19/index/ixbuf", "chunk", "firstKey")
	bufF := p.Field("db19/index/ixbuf", "merge", "buf")
	keyF := p.Field("db19/index/ixbuf", "slot", "key")
	if fs == nil || !c.need(rule, "ixbuf.merge.outputChunk", out) || !c.need(rule, "ixbuf.chunk.firstKey", first) ||
		!c.need(rule, "ixbuf.merge.buf", bufF) || !c.need(rule, "ixbuf.slot.key", keyF) {
		return
	}
	info := fs.Info()
	mentions := func(e ast.Expr, pred func(ast.Node) bool) bool {
		found := false
		ast.Inspect(e, func(n ast.Node) bool {
			if n != nil && pred(n) {
				found = true
			}
			return !found
		})
		return found
	}
	isFirstKey := func(e ast.Expr) bool {
		return mentions(e, func(n ast.Node) bool {
			call, ok := n.(*ast.CallExpr)
			if ok && sameFunc(Callee(info, call), first) {
				return true
			}
			// in[i][0].key
			if x, ok := n.(ast.Expr); ok && FieldOf(info, x) == keyF {
				if sel, ok := ast.Unparen(x).(*ast.SelectorExpr); ok {
					if ix, ok := ast.Unparen(sel.X).(*ast.IndexExpr); ok {
						if v := ConstVal(info, ix.Index); v != nil && constant.Sign(v) == 0 && !mentions(ix.X, func(m ast.Node) bool {
							y, ok := m.(ast.Expr)
							return ok && FieldOf(info, y) == bufF
						}) {
							return true
						}
					}
				}
			}
			return false
		})
	}
	isLastBufKey := func(e ast.Expr) bool {
		return FieldOf(info, e) == keyF && mentions(e, func(n ast.Node) bool {
			y, ok := n.(ast.Expr)
			return ok && FieldOf(info, y) == bufF
		})
	}
	env := &AbsEnv{Info: info, Locals: map[types.Object]constant.Value{}}
	env.Atom = func(e ast.Expr) (constant.Value, bool) {
		switch x := e.(type) {
		case *ast.BinaryExpr:
			if x.Op == token.EQL || x.Op == token.NEQ {
				if (isFirstKey(x.X) && isLastBufKey(x.Y)) || (isFirstKey(x.Y) && isLastBufKey(x.X)) {
					return constant.MakeBool(x.Op == token.EQL), true
				}
			}
		case *ast.CallExpr:
			if IsBuiltin(info, x, "len") && len(x.Args) == 1 && FieldOf(info, x.Args[0]) == bufF {
				return constant.MakeInt64(1), true
			}
		}
		return nil, false
	}
	verdict, why := "", ""
	for _, st := range fs.Body.List {
		switch x := st.(type) {
		case *ast.ForStmt, *ast.RangeStmt:
			continue // the comparison with the other inputs: assumed not to refuse
		case *ast.ExprStmt:
			if call, ok := x.X.(*ast.CallExpr); ok && sameFunc(Callee(info, call), out) {
				verdict, why = "passes", "the fold reaches outputChunk"
			}
		}
		if verdict != "" {
			break
		}
		r, done := env.stmt(st)
		if r.Unknown != "" {
			verdict, why = "unknown", "whether the chunk is refused depends on "+r.Unknown+" although the keys are equal"
			break
		}
		if done {
			if len(r.Returns) == 1 && r.Returns[0] != nil && r.Returns[0].Kind() == constant.Bool && !constant.BoolVal(r.Returns[0]) {
				verdict = "refused"
			} else {
				verdict, why = "passes", "the fold returns something other than false"
			}
			break
		}
	}
	if verdict == "" {
		verdict, why = "passes", "the fold falls off the end"
	}
	c.Obl(rule, "merge.passthru refuses a chunk whose first key equals the last buffered key, whatever the slots' change bits", p.Pos(fs.Decl), verdict == "refused",
		why+": a tombstone followed by a re-add of the same key in the next input is passed through uncombined, the result has the key twice")
	// and the pass-through itself happens only in passthru and flush paths
	n := 0
	for _, f := range p.FuncsIn("db19/index/ixbuf") {
		if f.Body != nil && len(p.CallsIn(f, out)) > 0 {
			n++
			c.Obl(rule, "outputChunk is called only from merge.passthru", p.Pos(f.Decl), f.Obj == fs.Obj, f.name+" passes chunks through without the equal-key test")
		}
	}
	c.Floor(rule, n, 1, "callers of outputChunk")
}

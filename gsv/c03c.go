package main

// Rules added after the fourth round of seeded changes.

import (
	"go/ast"
	"go/constant"
	"go/types"
)

// checkWriteLimitAborts (C03.9): reaching the per-transaction write limit aborts the
// transaction before the refusal is raised — otherwise a caller that catches the exception can
// still commit the writes made so far although the operation reported failure.
func checkWriteLimitAborts(c *Ctx, rule string) {
	p := c.P
	wc := p.Field("db19", "UpdateTran", "writeCount")
	abort := p.DeclaredMethod("db19", "UpdateTran", "Abort")
	if !c.need(rule, "db19.UpdateTran.writeCount", wc) || !c.need(rule, "db19.(*UpdateTran).Abort", abort) {
		return
	}
	n := 0
	for _, fs := range p.FuncsIn("db19") {
		if fs.Body == nil {
			continue
		}
		info := fs.Info()
		cmp := false
		ast.Inspect(fs.Body, func(nd ast.Node) bool {
			if be, ok := nd.(*ast.BinaryExpr); ok {
				if FieldOf(info, be.X) == wc || FieldOf(info, be.Y) == wc {
					switch be.Op.String() {
					case ">", ">=", "<", "<=":
						cmp = true
					}
				}
			}
			return true
		})
		if !cmp {
			continue
		}
		fl := &Flow{P: p, Node: Labeler(CallOf("Abort", abort), PanicCall("panic"))}
		res := fl.Analyze(fs)
		for _, s := range res.Of("panic") {
			n++
			c.Obl(rule, fs.name+": the write limit aborts the transaction before it refuses the operation", p.Pos(s.Node), s.Before.Has("Abort"),
				"the limit is reported by a panic without Abort(): the transaction stays active and its earlier writes can still be committed")
		}
	}
	c.Floor(rule, n, 1, "refusals at the write limit")
}

// checkLookupCacheBypass (C02.10): the per-operator cache of join lookups is used only for
// transactions that cannot write — an update transaction must see its own later writes, so
// every use of the cache is on a path that excludes an updatable transaction.
func checkLookupCacheBypass(c *Ctx, rule string) {
	p := c.P
	cacheF := p.Field("dbms/query", "lookupCache", "cache")
	updatable := p.DeclaredMethod("core", "SuTran", "Updatable")
	if !c.need(rule, "query.lookupCache.cache", cacheF) || !c.need(rule, "core.(*SuTran).Updatable", updatable) {
		return
	}
	n := 0
	for _, fs := range p.FuncsIn("dbms/query") {
		if fs.Body == nil {
			continue
		}
		info := fs.Info()
		use := Ev{"cache.get", func(_ *FuncSrc, nd ast.Node) bool {
			call, ok := nd.(*ast.CallExpr)
			if !ok {
				return false
			}
			sel, ok := call.Fun.(*ast.SelectorExpr)
			if !ok || FieldOf(info, sel.X) != cacheF {
				return false
			}
			switch sel.Sel.Name {
			case "Get", "GetPut", "GetInit":
				return true
			}
			return false
		}}
		has := false
		ForEachNode(fs, func(nd ast.Node) {
			if use.Match(fs, nd) {
				has = true
			}
		})
		if !has {
			continue
		}
		fl := &Flow{P: p, Node: Labeler(use), Edge: func(s *FuncSrc, cond ast.Expr, truth bool) []string { return []string{condLabel(cond, truth)} }}
		res := fl.Analyze(fs)
		for _, s := range res.Of("cache.get") {
			n++
			excluded := false
			for _, f := range condFactsOf(s.Before, nil) {
				mentions := false
				ast.Inspect(f.Expr, func(m ast.Node) bool {
					if call, ok := m.(*ast.CallExpr); ok && sameFunc(Callee(info, call), updatable) {
						mentions = true
					}
					return true
				})
				if !mentions {
					continue
				}
				// with a non-nil updatable transaction the fact must be impossible
				env := &AbsEnv{Info: info, Atom: func(e ast.Expr) (constant.Value, bool) {
					switch x := e.(type) {
					case *ast.CallExpr:
						if sameFunc(Callee(info, x), updatable) {
							return constant.MakeBool(true), true
						}
					case *ast.BinaryExpr:
						if isNilIdent(info, x.Y) || isNilIdent(info, x.X) {
							if t := info.TypeOf(x.X); t != nil {
								if n := c17NamedOf(t); n != nil && n.Obj().Name() == "SuTran" {
									return constant.MakeBool(x.Op.String() == "!="), true
								}
							}
						}
					}
					return nil, false
				}}
				v := env.expr(f.Expr)
				if v != nil && v.Kind() == constant.Bool && constant.BoolVal(v) != f.Truth {
					excluded = true
				}
			}
			c.Obl(rule, fs.name+": the lookup cache is consulted only when the transaction cannot write", p.Pos(s.Node), excluded,
				"the cache is used on a path that an update transaction can take: a join lookup repeated after the transaction's own write returns the row cached before the write")
		}
	}
	c.Floor(rule, n, 1, "uses of the join lookup cache")
	var _ types.Object
}

package main

// Loading of /repo and the indexes every rule works from:
// packages (syntax + types), function sources, name resolution of anchors.

import (
	"fmt"
	"go/ast"
	"go/constant"
	"go/token"
	"go/types"
	"os"
	"sort"
	"strings"

	"golang.org/x/tools/go/packages"
	"golang.org/x/tools/go/types/typeutil"
)

const modPath = "github.com/apmckinlay/gsuneido"

var repoDir = "/repo"

// FuncSrc is a function with source: a declaration or a function literal.
type FuncSrc struct {
	Pkg    *packages.Package
	Obj    *types.Func // nil for literals
	Decl   *ast.FuncDecl
	Lit    *ast.FuncLit
	Body   *ast.BlockStmt
	Type   *ast.FuncType
	Parent *FuncSrc // enclosing function, for literals
	name   string
	ord    int // ordinal of a literal within its outermost function
}

func (f *FuncSrc) Name() string { return f.name }

// Outer returns the outermost enclosing declared function.
func (f *FuncSrc) Outer() *FuncSrc {
	for f.Parent != nil {
		f = f.Parent
	}
	return f
}

func (f *FuncSrc) Info() *types.Info { return f.Pkg.TypesInfo }

// Recv returns the receiver variable of a method (outermost function), or nil.
func (f *FuncSrc) Recv() *types.Var {
	o := f.Outer()
	if o.Obj == nil {
		return nil
	}
	return o.Obj.Type().(*types.Signature).Recv()
}

type Prog struct {
	Fset       *token.FileSet
	Normalized int                 // hoisted conditions folded back by normalizeConds
	Pkgs       []*packages.Package // packages of the module
	ByPath     map[string]*packages.Package
	All        map[string]*packages.Package // including dependencies
	Funcs      map[*types.Func]*FuncSrc
	Lits       map[*ast.FuncLit]*FuncSrc
	AllSrcs    []*FuncSrc
	nfuncs     int
	tags       string
	goos       string
}

type LoadOpts struct {
	Raw      bool // leave the syntax trees exactly as parsed (source-rewriting commands)
	Patterns []string
	Tags     string
	GOOS     string
}

func init() {
	// the go command that go/packages spawns must understand /repo/go.mod
	os.Setenv("PATH", "/opt/veriftools/go1.26.8/bin:"+os.Getenv("PATH"))
	if d := os.Getenv("GSV_REPO"); d != "" {
		repoDir = d
	}
}

func Load(o LoadOpts) (*Prog, error) {
	if len(o.Patterns) == 0 {
		o.Patterns = []string{"./..."}
	}
	env := append(os.Environ(), "GOWORK=off", "GOFLAGS=-mod=mod", "GOPROXY=off",
		"GOTOOLCHAIN=local", "GOSUMDB=off", "CGO_ENABLED=0")
	if o.GOOS != "" {
		env = append(env, "GOOS="+o.GOOS)
	}
	cfg := &packages.Config{
		Mode: packages.LoadAllSyntax,
		Dir:  repoDir,
		Env:  env,
	}
	if o.Tags != "" {
		cfg.BuildFlags = []string{"-tags=" + o.Tags}
	}
	pkgs, err := packages.Load(cfg, o.Patterns...)
	if err != nil {
		return nil, err
	}
	p := &Prog{ByPath: map[string]*packages.Package{}, All: map[string]*packages.Package{},
		Funcs: map[*types.Func]*FuncSrc{}, Lits: map[*ast.FuncLit]*FuncSrc{}, tags: o.Tags, goos: o.GOOS}
	var errs []string
	packages.Visit(pkgs, nil, func(pk *packages.Package) {
		p.All[pk.PkgPath] = pk
		if !strings.HasPrefix(pk.PkgPath, modPath) {
			return
		}
		for _, e := range pk.Errors {
			// a missing //go:embed file is not a type error; the package is still complete
			if strings.Contains(e.Msg, "pattern ") && strings.Contains(e.Msg, "no matching files") {
				continue
			}
			errs = append(errs, pk.PkgPath+": "+e.Error())
		}
		if pk.Fset != nil {
			p.Fset = pk.Fset
		}
		p.Pkgs = append(p.Pkgs, pk)
		p.ByPath[pk.PkgPath] = pk
	})
	if len(errs) > 0 {
		return nil, fmt.Errorf("type errors:\n%s", strings.Join(errs, "\n"))
	}
	if len(p.Pkgs) == 0 {
		return nil, fmt.Errorf("no packages loaded from %s", repoDir)
	}
	sort.Slice(p.Pkgs, func(i, j int) bool { return p.Pkgs[i].PkgPath < p.Pkgs[j].PkgPath })
	for _, pk := range p.Pkgs {
		if !o.Raw {
			p.Normalized += normalizeConds(pk)
		}
		p.indexPkg(pk)
	}
	return p, nil
}

func (p *Prog) indexPkg(pk *packages.Package) {
	for _, f := range pk.Syntax {
		for _, d := range f.Decls {
			fd, ok := d.(*ast.FuncDecl)
			if !ok {
				continue
			}
			obj, _ := pk.TypesInfo.Defs[fd.Name].(*types.Func)
			if obj == nil {
				continue
			}
			fs := &FuncSrc{Pkg: pk, Obj: obj, Decl: fd, Body: fd.Body, Type: fd.Type, name: funcName(obj)}
			p.Funcs[obj] = fs
			p.AllSrcs = append(p.AllSrcs, fs)
			p.nfuncs++
			if fd.Body != nil {
				p.indexLits(fs, fd.Body)
			}
		}
		// literals in package-level var initialisers
		for _, d := range f.Decls {
			gd, ok := d.(*ast.GenDecl)
			if !ok {
				continue
			}
			holder := &FuncSrc{Pkg: pk, name: pkgShort(pk.PkgPath) + ".<init>"}
			p.indexLits(holder, gd)
		}
	}
}

func (p *Prog) indexLits(outer *FuncSrc, root ast.Node) {
	ord := 0
	var walk func(parent *FuncSrc, n ast.Node)
	walk = func(parent *FuncSrc, n ast.Node) {
		ast.Inspect(n, func(m ast.Node) bool {
			lit, ok := m.(*ast.FuncLit)
			if !ok {
				return true
			}
			ord++
			fs := &FuncSrc{Pkg: outer.Pkg, Lit: lit, Body: lit.Body, Type: lit.Type, Parent: parent,
				name: fmt.Sprintf("%s$%d", outer.name, ord), ord: ord}
			if parent.Body == nil && parent.Decl == nil {
				fs.Parent = nil
			}
			p.Lits[lit] = fs
			p.AllSrcs = append(p.AllSrcs, fs)
			p.nfuncs++
			walk(fs, lit.Body)
			return false
		})
	}
	walk(outer, root)
}

func pkgShort(path string) string {
	if path == modPath {
		return "gsuneido"
	}
	return strings.TrimPrefix(path, modPath+"/")
}

func funcName(f *types.Func) string {
	pk := ""
	if f.Pkg() != nil {
		pk = pkgShort(f.Pkg().Path())
	}
	sig, _ := f.Type().(*types.Signature)
	if sig != nil && sig.Recv() != nil {
		t := sig.Recv().Type()
		ptr := ""
		if pt, ok := t.(*types.Pointer); ok {
			t = pt.Elem()
			ptr = "*"
		}
		tn := t.String()
		if nt, ok := t.(*types.Named); ok {
			tn = nt.Obj().Name()
		} else if al, ok := t.(*types.Alias); ok {
			tn = al.Obj().Name()
		}
		if ptr != "" {
			return fmt.Sprintf("%s.(*%s).%s", pk, tn, f.Name())
		}
		return fmt.Sprintf("%s.%s.%s", pk, tn, f.Name())
	}
	return pk + "." + f.Name()
}

func (p *Prog) Pos(n ast.Node) string {
	if n == nil {
		return "?"
	}
	return p.PosOf(n.Pos())
}

func (p *Prog) PosOf(pos token.Pos) string {
	if !pos.IsValid() {
		return "?"
	}
	ps := p.Fset.Position(pos)
	return fmt.Sprintf("%s:%d", strings.TrimPrefix(ps.Filename, repoDir+"/"), ps.Line)
}

// ---- anchor resolution (nil / error when missing: callers turn that into a
// mechanism-missing obligation, never into "holds")

func (p *Prog) Pkg(short string) *packages.Package {
	if short == "" || short == "gsuneido" {
		return p.ByPath[modPath]
	}
	if pk := p.ByPath[modPath+"/"+short]; pk != nil {
		return pk
	}
	return p.All[short]
}

func (p *Prog) Lookup(pkg, name string) types.Object {
	pk := p.Pkg(pkg)
	if pk == nil || pk.Types == nil {
		return nil
	}
	return pk.Types.Scope().Lookup(name)
}

func (p *Prog) NamedType(pkg, name string) *types.Named {
	o, _ := p.Lookup(pkg, name).(*types.TypeName)
	if o == nil {
		return nil
	}
	n, _ := types.Unalias(o.Type()).(*types.Named)
	return n
}

// Func resolves a package-level function.
func (p *Prog) Func(pkg, name string) *types.Func {
	f, _ := p.Lookup(pkg, name).(*types.Func)
	return f
}

// Method resolves a method declared on (or promoted to) the named type (value or
// pointer receiver).
func (p *Prog) Method(pkg, typ, name string) *types.Func {
	n := p.NamedType(pkg, typ)
	if n == nil {
		return nil
	}
	obj, _, _ := types.LookupFieldOrMethod(types.NewPointer(n), true, n.Obj().Pkg(), name)
	f, _ := obj.(*types.Func)
	return f
}

// DeclaredMethod resolves a method only if it is declared on typ itself.
func (p *Prog) DeclaredMethod(pkg, typ, name string) *types.Func {
	n := p.NamedType(pkg, typ)
	if n == nil {
		return nil
	}
	for i := 0; i < n.NumMethods(); i++ {
		if m := n.Method(i); m.Name() == name {
			return m
		}
	}
	return nil
}

// IfaceMethod resolves a method of a named interface type.
func (p *Prog) IfaceMethod(pkg, typ, name string) *types.Func {
	n := p.NamedType(pkg, typ)
	if n == nil {
		return nil
	}
	it, _ := n.Underlying().(*types.Interface)
	if it == nil {
		return nil
	}
	for i := 0; i < it.NumMethods(); i++ {
		if m := it.Method(i); m.Name() == name {
			return m
		}
	}
	return nil
}

// Field resolves a struct field (possibly of an embedded struct: a.b).
func (p *Prog) Field(pkg, typ, name string) *types.Var {
	n := p.NamedType(pkg, typ)
	if n == nil {
		return nil
	}
	st, _ := n.Underlying().(*types.Struct)
	if st == nil {
		return nil
	}
	for i := 0; i < st.NumFields(); i++ {
		if f := st.Field(i); f.Name() == name {
			return f
		}
	}
	return nil
}

func (p *Prog) Const(pkg, name string) constant.Value {
	c, _ := p.Lookup(pkg, name).(*types.Const)
	if c == nil {
		return nil
	}
	return c.Val()
}

func (p *Prog) ConstObj(pkg, name string) *types.Const {
	c, _ := p.Lookup(pkg, name).(*types.Const)
	return c
}

func (p *Prog) GlobalVar(pkg, name string) *types.Var {
	v, _ := p.Lookup(pkg, name).(*types.Var)
	return v
}

func (p *Prog) Src(f *types.Func) *FuncSrc {
	if f == nil {
		return nil
	}
	return p.Funcs[f.Origin()]
}

// Callee resolves the called function or method (the interface method for dynamic
// calls); nil for calls of function values, conversions and builtins.
func Callee(info *types.Info, call *ast.CallExpr) *types.Func {
	f, _ := typeutil.Callee(info, call).(*types.Func)
	if f != nil {
		return f.Origin()
	}
	return nil
}

func IsBuiltin(info *types.Info, call *ast.CallExpr, name string) bool {
	id, ok := ast.Unparen(call.Fun).(*ast.Ident)
	if !ok || id.Name != name {
		return false
	}
	_, isb := info.Uses[id].(*types.Builtin)
	return isb
}

// FieldOf returns the field selected by e (x.f), or nil.
func FieldOf(info *types.Info, e ast.Expr) *types.Var {
	e = ast.Unparen(e)
	sel, ok := e.(*ast.SelectorExpr)
	if !ok {
		return nil
	}
	if s := info.Selections[sel]; s != nil {
		if v, ok := s.Obj().(*types.Var); ok && v.IsField() {
			return v
		}
		return nil
	}
	// qualified identifier pkg.Var
	return nil
}

// ObjOf returns the object an identifier or pkg.Name selector refers to.
func ObjOf(info *types.Info, e ast.Expr) types.Object {
	e = ast.Unparen(e)
	switch e := e.(type) {
	case *ast.Ident:
		if o := info.Uses[e]; o != nil {
			return o
		}
		return info.Defs[e]
	case *ast.SelectorExpr:
		if s := info.Selections[e]; s != nil {
			return s.Obj()
		}
		return info.Uses[e.Sel]
	}
	return nil
}

// ConstVal returns the constant value of an expression, or nil.
func ConstVal(info *types.Info, e ast.Expr) constant.Value {
	if tv, ok := info.Types[e]; ok {
		return tv.Value
	}
	return nil
}

// MethodsOf lists the methods declared on the named type in source order of name.
func (p *Prog) MethodsOf(pkg, typ string) []*types.Func {
	n := p.NamedType(pkg, typ)
	if n == nil {
		return nil
	}
	var out []*types.Func
	for i := 0; i < n.NumMethods(); i++ {
		out = append(out, n.Method(i))
	}
	sort.Slice(out, func(i, j int) bool { return out[i].Name() < out[j].Name() })
	return out
}

// FuncsIn returns every declared function of the package (sorted by name).
func (p *Prog) FuncsIn(pkg string) []*FuncSrc {
	pk := p.Pkg(pkg)
	if pk == nil {
		return nil
	}
	var out []*FuncSrc
	for _, fs := range p.Funcs {
		if fs.Pkg == pk {
			out = append(out, fs)
		}
	}
	sort.Slice(out, func(i, j int) bool { return out[i].name < out[j].name })
	return out
}

// LitsOf returns the function literals lexically inside fs (all depths).
func (p *Prog) LitsOf(fs *FuncSrc) []*FuncSrc {
	var out []*FuncSrc
	if fs.Body == nil {
		return nil
	}
	ast.Inspect(fs.Body, func(n ast.Node) bool {
		if l, ok := n.(*ast.FuncLit); ok {
			if s := p.Lits[l]; s != nil {
				out = append(out, s)
			}
		}
		return true
	})
	return out
}

func exprStr(e ast.Expr) string { return types.ExprString(e) }

// normalizeConds undoes, in the loaded syntax trees only, the hoisting of a branch condition
// into a boolean local that is used for nothing else:
//
//	if ok := <expr>; ok { … }        →  if <expr> { … }
//	ok := <expr>; if !ok { … }       →  if !(<expr>) { … }
//
// so that every rule sees one shape.  <expr> keeps its type information (it was type-checked
// where it stood) and its position; the local must have exactly one use (the condition).
func normalizeConds(pk *packages.Package) int {
	info := pk.TypesInfo
	uses := map[types.Object]int{}
	for _, o := range info.Uses {
		uses[o]++
	}
	n := 0
	// the hoisted definition `id := expr` of cond, or nil
	hoisted := func(def ast.Stmt, cond ast.Expr) ast.Expr {
		as, ok := def.(*ast.AssignStmt)
		if !ok || as.Tok != token.DEFINE || len(as.Lhs) != 1 || len(as.Rhs) != 1 {
			return nil
		}
		lid, ok := as.Lhs[0].(*ast.Ident)
		if !ok || lid.Name == "_" {
			return nil
		}
		obj := info.Defs[lid]
		if obj == nil || uses[obj] != 1 {
			return nil
		}
		if b, ok := obj.Type().Underlying().(*types.Basic); !ok || b.Info()&types.IsBoolean == 0 {
			return nil
		}
		inner := ast.Unparen(cond)
		neg := false
		if u, ok := inner.(*ast.UnaryExpr); ok && u.Op == token.NOT {
			inner, neg = ast.Unparen(u.X), true
		}
		id, ok := inner.(*ast.Ident)
		if !ok || info.Uses[id] != obj {
			return nil
		}
		if neg {
			ne := &ast.UnaryExpr{Op: token.NOT, OpPos: as.Rhs[0].Pos(), X: &ast.ParenExpr{Lparen: as.Rhs[0].Pos(), X: as.Rhs[0], Rparen: as.Rhs[0].End()}}
			info.Types[ne] = info.Types[as.Rhs[0]]
			info.Types[ne.X] = info.Types[as.Rhs[0]]
			return ne
		}
		return as.Rhs[0]
	}
	fixList := func(list []ast.Stmt) []ast.Stmt {
		out := list[:0:0]
		for i := 0; i < len(list); i++ {
			if i+1 < len(list) {
				if ifs, ok := list[i+1].(*ast.IfStmt); ok && ifs.Init == nil {
					if e := hoisted(list[i], ifs.Cond); e != nil {
						ifs.Cond = e
						n++
						continue // drop the definition
					}
				}
			}
			out = append(out, list[i])
		}
		return out
	}
	for _, f := range pk.Syntax {
		ast.Inspect(f, func(nd ast.Node) bool {
			switch x := nd.(type) {
			case *ast.IfStmt:
				if x.Init != nil {
					if e := hoisted(x.Init, x.Cond); e != nil {
						x.Init, x.Cond = nil, e
						n++
					}
				}
			case *ast.BlockStmt:
				x.List = fixList(x.List)
			case *ast.CaseClause:
				x.Body = fixList(x.Body)
			case *ast.CommClause:
				x.Body = fixList(x.Body)
			}
			return true
		})
	}
	return n
}

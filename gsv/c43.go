package main

// C43 concurrent use of shared values — lock discipline (K7):
// SuObject fields under the object's rwMayLock, SuRecord state under the same lock,
// closure Shared.values elements under Shared's MayLock, copyCount through atomics.

import (
	"fmt"
	"go/ast"
	"go/types"
	"sort"
	"strings"
)

func init() { register("C43", checkC43) }

// c43Exceptions: functions whose unguarded accesses are accepted, each confirmed by reading.
var c43Exceptions = map[string]string{
	"core.(*SuObject).SetConcurrent":  "runs while the object is still thread contained: its body is skipped once ob.concurrent is set, and concurrent is set before the object is shared (contract stated at MayLock/rwMayLock)",
	"core.(*SuObject).SetChildConc":   "called only from the two SetConcurrent methods inside their `!concurrent` branch, i.e. before the object is shared; it only reads the members to mark them concurrent",
	"core.(*SuRecord).SetConcurrent":  "same contract as SuObject.SetConcurrent: the body runs once, before the record is reachable from another thread (it sets shouldLock itself)",
	"core.(*SuClosure).SetConcurrent": "marks the closure's Shared concurrent; it is called by the only thread that can reach that Shared, every later access goes through Shared.Lock",
	"core.SuRecordFromObject":         "takes over the members of the argument object built for this call (args.go: ob.Slice makes the copy); its single caller builtin.record is checked by C43.2",
}

// c43SortingWindow: functions in which list accesses are also accepted while the object's
// sorting flag is set (writers are refused by mustBeMutable during the window).
var c43SortingWindow = map[string]bool{
	// Sort / Unique release the lock around user code (the comparison) after setting ob.sorting under
	// the lock; mustBeMutable refuses every writer while the flag is set (C36.2 routes all writers
	// through it).  Readers are NOT excluded during the window — the source accepts that
	// ("can't hold lock while calling arbitrary code"); see the report.
	"core.(*SuObject).Sort":   true,
	"core.(*SuObject).Unique": true,
}

func checkC43(c *Ctx) string {
	p := c.P
	r0 := "C43.0 anchors"
	r1 := "C43.1 K7 SuObject / SuRecord / Shared state is accessed only with the owning lock held (reads R or W, writes W)"
	a := getSuObj(c, r0)
	if a == nil {
		return "anchors missing"
	}
	rwT := p.NamedType("core", "rwMayLock")
	mayT := p.NamedType("core", "MayLock")
	sharedT := p.NamedType("core", "Shared")
	suRecT := p.NamedType("core", "suRec")
	valuesF := p.Field("core", "Shared", "values")
	recEmb := p.Field("core", "SuRecord", "suRec")
	if !c.need(r0, "core.rwMayLock", rwT) || !c.need(r0, "core.MayLock", mayT) || !c.need(r0, "core.Shared", sharedT) ||
		!c.need(r0, "core.suRec", suRecT) || !c.need(r0, "core.Shared.values", valuesF) || !c.need(r0, "core.SuRecord.suRec", recEmb) {
		return "anchors missing"
	}
	lockFns := map[*types.Func]string{}
	for n, l := range map[string]string{"Lock": "W", "RLock": "R", "Unlock": "-W", "RUnlock": "-R"} {
		f := p.DeclaredMethod("core", "rwMayLock", n)
		if !c.need(r0, "core.rwMayLock."+n, f) {
			return "anchors missing"
		}
		lockFns[f] = l
	}
	for n, l := range map[string]string{"Lock": "W", "Unlock": "-W"} {
		f := p.DeclaredMethod("core", "SuRecord", n)
		g := p.DeclaredMethod("core", "MayLock", n)
		if !c.need(r0, "core.SuRecord."+n, f) || !c.need(r0, "core.MayLock."+n, g) {
			return "anchors missing"
		}
		lockFns[f] = l
		lockFns[g] = l
	}
	obGuarded := map[*types.Var]bool{a.list: true, a.named: true, a.defval: true, a.readonly: true, a.version: true, a.clock: true, a.sorting: true}
	recGuarded := map[*types.Var]bool{recEmb: true}
	if st, ok := suRecT.Underlying().(*types.Struct); ok {
		for i := 0; i < st.NumFields(); i++ {
			recGuarded[st.Field(i)] = true
		}
	}
	c.Floor(r0, len(recGuarded), 12, "fields of core.suRec")
	listMut := map[*types.Func]bool{}
	// mutating methods of the field types of suRec (str.Queue, list.List, maps are builtin)
	recMut := map[*types.Func]bool{}
	for f := range recGuarded {
		if nt := namedOf(f.Type()); nt != nil && nt.Obj().Pkg() != nil && strings.HasPrefix(nt.Obj().Pkg().Path(), modPath) {
			for m := range recvMutators(p, nt.Origin()) {
				recMut[m] = true
			}
		}
	}
	for m := range a.namedMut {
		recMut[m] = true
	}
	_ = listMut

	norm := func(info *types.Info, e ast.Expr) objRef {
		r := refOf(info, e)
		if n := namedOf(info.TypeOf(e)); n != nil {
			switch n {
			case a.recT:
				return r.add(".ob")
			case suRecT:
				if strings.HasSuffix(r.path, ".suRec") {
					r.path = strings.TrimSuffix(r.path, ".suRec") + ".ob"
				}
			}
		}
		return r
	}
	g := &guardDiscipline{c: c, p: p, pkg: "core", norm: norm}
	g.events = func(fs *FuncSrc, n ast.Node) []string {
		var out []string
		switch x := n.(type) {
		case *ast.CallExpr:
			cal := Callee(fs.Info(), x)
			if cal == nil {
				return nil
			}
			l, ok := lockFns[cal]
			if !ok {
				return nil
			}
			sel, ok := ast.Unparen(x.Fun).(*ast.SelectorExpr)
			if !ok {
				return nil
			}
			r := norm(fs.Info(), sel.X)
			if !r.ok() {
				return nil
			}
			if l[0] == '-' {
				return []string{"-" + l[1:] + ":" + r.key()}
			}
			return []string{l + ":" + r.key()}
		case *ast.AssignStmt:
			// X.f = &T{…} / new(T): the object behind X.f is newly allocated (until X.f is assigned again)
			if len(x.Lhs) == 1 && len(x.Rhs) == 1 {
				if _, isSel := ast.Unparen(x.Lhs[0]).(*ast.SelectorExpr); isSel {
					if r := norm(fs.Info(), x.Lhs[0]); r.ok() && r.path != "" {
						fresh := false
						switch rhs := ast.Unparen(x.Rhs[0]).(type) {
						case *ast.UnaryExpr:
							_, fresh = ast.Unparen(rhs.X).(*ast.CompositeLit)
						case *ast.CallExpr:
							fresh = IsBuiltin(fs.Info(), rhs, "new")
						}
						if fresh {
							out = append(out, "F:"+r.key())
						} else {
							out = append(out, "-F:"+r.key())
						}
					}
				}
			}
			// the sorting flag
			if len(x.Lhs) == 1 && len(x.Rhs) == 1 && FieldOf(fs.Info(), x.Lhs[0]) == a.sorting {
				if v := ConstVal(fs.Info(), x.Rhs[0]); v != nil {
					r := norm(fs.Info(), ast.Unparen(x.Lhs[0]).(*ast.SelectorExpr).X)
					if r.ok() {
						if v.String() == "true" {
							out = append(out, "S:"+r.key())
						} else {
							out = append(out, "-S:"+r.key())
						}
					}
				}
			}
		}
		return out
	}
	g.reqs = func(u *gUnit, n ast.Node) []guardReq {
		sel, ok := n.(*ast.SelectorExpr)
		if !ok {
			return nil
		}
		info := u.fs.Info()
		f := FieldOf(info, sel)
		if f == nil {
			return nil
		}
		switch {
		case obGuarded[f]:
			k := "R"
			if writeContext(p, info, u.par, sel, a.namedMut) == "w" {
				k = "W"
			}
			return []guardReq{{obj: sel.X, kind: k, what: rw(k) + " of " + f.Name()}}
		case recGuarded[f]:
			k := "R"
			if writeContext(p, info, u.par, sel, recMut) == "w" {
				k = "W"
			}
			if f == recEmb {
				// r.suRec.x is reported at x; r.suRec = … is a write of everything
				if _, inner := u.par[sel].(*ast.SelectorExpr); inner && k == "R" {
					return nil
				}
			}
			return []guardReq{{obj: sel.X, kind: k, what: rw(k) + " of record." + f.Name()}}
		case f == valuesF:
			// element accesses only: the slice header never changes after creation
			switch pn := u.par[sel].(type) {
			case *ast.IndexExpr:
				k := "R"
				if writeContext(p, info, u.par, sel, nil) == "w" {
					k = "W"
				}
				return []guardReq{{obj: sel.X, kind: k, what: rw(k) + " of a Shared.values element"}}
			case *ast.RangeStmt:
				if pn.X == ast.Expr(sel) && pn.Value != nil {
					return []guardReq{{obj: sel.X, kind: "R", what: "read of a Shared.values element"}}
				}
			case *ast.SliceExpr:
				return []guardReq{{obj: sel.X, kind: "R", what: "read of a Shared.values element"}}
			case *ast.CallExpr:
				if IsBuiltin(info, pn, "len") || IsBuiltin(info, pn, "cap") {
					return nil
				}
				return []guardReq{{obj: sel.X, kind: "R", what: "read of a Shared.values element"}}
			case *ast.AssignStmt:
				for _, l := range pn.Lhs {
					if ast.Unparen(l) == ast.Expr(sel) {
						return []guardReq{{obj: sel.X, kind: "W", what: "write of Shared.values"}}
					}
				}
				return []guardReq{{obj: sel.X, kind: "R", what: "read of a Shared.values element"}}
			}
		}
		return nil
	}
	g.holds = func(before Set, key, kind string, u *gUnit) bool {
		if before.Has("W:" + key) {
			return true
		}
		if kind == "R" && before.Has("R:"+key) {
			return true
		}
		if c43SortingWindow[u.fs.Outer().name] && before.Has("S:"+key) {
			return true
		}
		if before.Has("F:" + key) {
			return true // allocated earlier in this function on every path
		}
		return false
	}
	g.carrier = func(fs *FuncSrc) bool {
		return fs.Obj != nil && (!fs.Obj.Exported() || fs.name == "core.(*SuObject).NamedGet")
	}
	g.run()
	sites, units := g.report(r1, "another thread can modify the object at the same time: data race (torn interface values, corrupted map, lost update)", c43Exceptions,
		func(k string) string {
			return map[string]string{"R": "the read (or write) lock", "W": "the write lock"}[k]
		})
	c.Floor(r1, sites, 250, "guarded accesses")
	c.Floor(r1, units, 100, "functions that touch guarded state")
	c.Stats["guarded_accesses"] = sites
	c.Stats["functions_analysed"] = units
	// carriers reachable through an interface would escape the call-site check
	for _, u := range g.sortedUnits() {
		if len(u.needs) == 0 || u.fs.Obj == nil || u.fs.Recv() == nil {
			continue
		}
		scope := p.Pkg("core").Types.Scope()
		for _, nm := range scope.Names() {
			tn, ok := scope.Lookup(nm).(*types.TypeName)
			if !ok {
				continue
			}
			it, ok := tn.Type().Underlying().(*types.Interface)
			if !ok {
				continue
			}
			for i := 0; i < it.NumMethods(); i++ {
				m := it.Method(i)
				if m.Name() != u.fs.Obj.Name() || !types.Implements(u.fs.Recv().Type(), it) {
					continue
				}
				for _, cs := range p.CallersOf(m) {
					if cs.Call != nil {
						c.Obl(r1, u.fs.name+" (relies on its caller for the lock) is not called through interface "+nm, p.Pos(cs.Call), false,
							"a dynamic call cannot be checked for the lock")
					}
				}
			}
		}
	}

	// ------------------------------------------------------------ 2. exported helpers that rely on their callers: who may call
	r2 := "C43.2 K3+K4c functions that do not lock for themselves: who may call them, and only before the value is shared"
	if f := p.DeclaredMethod("core", "SuObject", "NamedGet"); c.need(r2, "core.SuObject.NamedGet", f) {
		var ext []*types.Func
		ext = append(ext, f)
		// inside core the lock is checked by C43.1; outside core only these may call it
		// builtin.threadCallClass: the argument object of Thread(...) — made concurrent there but not yet handed to the new thread
		// dbms.getQuery: the argument object of Query1/QueryFirst/QueryLast built by the call
		allowed := map[string]bool{"builtin.threadCallClass": true, "dbms.getQuery": true}
		n := 0
		seen := map[string]bool{}
		for _, cs := range p.CallersOf(ext...) {
			if pkgShort(cs.Fn.Pkg.PkgPath) == "core" || seen[cs.Fn.name] {
				continue
			}
			seen[cs.Fn.name] = true
			n++
			pos := p.Pos(cs.In.Body)
			if cs.Call != nil {
				pos = p.Pos(cs.Call)
			}
			c.Obl(r2, "NamedGet (reads named without locking) is called from "+cs.Fn.name, pos, allowed[cs.Fn.name],
				"NamedGet does not lock; outside core it may only be used on argument objects that no other thread can reach (frozen: builtin.threadCallClass, dbms.getQuery)")
		}
		c.Floor(r2, n, 2, "callers of NamedGet outside core")
	}
	if f := p.Func("core", "SuRecordFromObject"); c.need(r2, "core.SuRecordFromObject", f) {
		c.Callers(r2, []*types.Func{f}, []string{"builtin.record"}, 1)
	}

	if f := p.DeclaredMethod("core", "SuObject", "SetChildConc"); c.need(r2, "core.SuObject.SetChildConc", f) {
		c.Callers(r2, []*types.Func{f}, []string{"core.(*SuObject).SetConcurrent", "core.(*SuRecord).SetConcurrent"}, 2)
		// the SetConcurrent exceptions: every unguarded access sits on the edge where the value is not concurrent yet
		rwConc, mayConc := p.Field("core", "rwMayLock", "concurrent"), p.Field("core", "MayLock", "concurrent")
		if c.need(r2, "core.rwMayLock.concurrent", rwConc) && c.need(r2, "core.MayLock.concurrent", mayConc) {
			for _, name := range []string{"core.(*SuObject).SetConcurrent", "core.(*SuRecord).SetConcurrent", "core.(*SuClosure).SetConcurrent"} {
				var fs *FuncSrc
				for _, u := range g.sortedUnits() {
					if u.fs.name == name {
						fs = u.fs
					}
				}
				if fs == nil {
					c.Missing(r2, name)
					continue
				}
				u := g.units[fs]
				fl := &Flow{P: p, Node: func(f *FuncSrc, n ast.Node) []string {
					if len(g.reqs(u, n)) > 0 {
						return []string{"acc"}
					}
					if call, ok := n.(*ast.CallExpr); ok {
						if cal := Callee(f.Info(), call); cal != nil && cal.Name() == "SetChildConc" {
							return []string{"acc"}
						}
					}
					return nil
				}, Edge: func(f *FuncSrc, cond ast.Expr, truth bool) []string {
					if fld := FieldOf(f.Info(), cond); fld != nil && (fld == rwConc || fld == mayConc) && !truth {
						return []string{"@notconc"}
					}
					return nil
				}}
				res := fl.Analyze(fs)
				bad := 0
				for _, st := range res.Of("acc") {
					if !st.Before.Has("@notconc") {
						bad++
					}
				}
				c.Obl(r2, name+": (exception) its unguarded accesses happen only while the value is not yet concurrent", p.Pos(fs.Decl), bad == 0 && len(res.Of("acc")) > 0,
					fmt.Sprintf("%d of %d accesses are not on the false edge of the `concurrent` test: a second SetConcurrent on an already shared value would read it without the lock", bad, len(res.Of("acc"))))
			}
		}
	}

	// ------------------------------------------------------------ 3. copyCount
	r3 := "C43.3 K1+K4 copyCount is an atomic counter and exists before an object is shared"
	atomicInt32 := types.Type(nil)
	if pk := p.All["sync/atomic"]; pk != nil {
		if o := pk.Types.Scope().Lookup("Int32"); o != nil {
			atomicInt32 = types.NewPointer(o.Type())
		}
	}
	c.Obl(r3, "SuObject.copyCount has type *sync/atomic.Int32", "", atomicInt32 != nil && types.Identical(a.copyCount.Type(), atomicInt32),
		"the counter is shared by several objects and deliberately not guarded by any object's lock: it must be an atomic")
	concF := p.Field("core", "rwMayLock", "concurrent")
	incCC := p.DeclaredMethod("core", "SuObject", "incCopyCount")
	if c.need(r3, "core.rwMayLock.concurrent", concF) && c.need(r3, "core.SuObject.incCopyCount", incCC) {
		// (a) the only unguarded store of the pointer: incCopyCount, on the nil edge
		if fs := p.Src(incCC); fs != nil {
			fl := &Flow{P: p, Node: Labeler(StoreTo("cc=", false, a.copyCount)), Edge: func(f *FuncSrc, cond ast.Expr, truth bool) []string {
				if be, ok := cond.(*ast.BinaryExpr); ok && (be.Op.String() == "==") == truth && (be.Op.String() == "==" || be.Op.String() == "!=") {
					for _, pr := range [][2]ast.Expr{{be.X, be.Y}, {be.Y, be.X}} {
						if FieldOf(f.Info(), pr[0]) == a.copyCount && isNilIdent(f.Info(), pr[1]) {
							return []string{"@nil"}
						}
					}
				}
				return nil
			}}
			res := fl.Analyze(fs)
			for _, s := range res.Of("cc=") {
				c.Obl(r3, "incCopyCount replaces the counter only when there is none", p.Pos(s.Node), s.Before.Has("@nil"),
					"slice() runs under the read lock: replacing an existing counter there loses increments of other sharers")
			}
		}
		// (b) whoever marks an object concurrent gives it a counter (incCopyCount's nil initialisation is unguarded by design:
		//     'SetConcurrent initializes copyCount so if it's nil we're not concurrent')
		n := 0
		for _, fs := range p.AllSrcs {
			if fs.Pkg != p.Pkg("core") || fs.Body == nil {
				continue
			}
			if fs.Lit != nil && fs.Parent != nil {
				continue // nested literals are scanned with their outermost function
			}
			info := fs.Info()
			var marks []ast.Node
			hasCC := false
			ast.Inspect(fs.Body, func(nd ast.Node) bool {
				switch x := nd.(type) {
				case *ast.AssignStmt:
					for i, l := range x.Lhs {
						if lhsField(info, l, false) == concF && i < len(x.Rhs) {
							sel := ast.Unparen(l).(*ast.SelectorExpr)
							if nt := namedOf(info.TypeOf(sel.X)); nt == a.obT {
								if v := ConstVal(info, x.Rhs[i]); v != nil && v.String() == "true" {
									marks = append(marks, x)
								}
							}
						}
						if lhsField(info, l, false) == a.copyCount {
							hasCC = true
						}
					}
				case *ast.KeyValueExpr:
					if id, ok := x.Key.(*ast.Ident); ok && info.Uses[id] == types.Object(a.copyCount) {
						hasCC = true
					}
				}
				return true
			})
			for _, m := range marks {
				n++
				name := fs.name
				if fs.Lit != nil {
					name = initVarName(p, fs)
				}
				c.Obl(r3, name+": an object marked concurrent is given a copy counter", p.Pos(m), hasCC,
					"the object is marked concurrent with copyCount == nil: two threads that Copy/Slice it both run incCopyCount's unguarded nil initialisation (data race on the pointer, lost share counts)")
			}
		}
		c.Floor(r3, n, 4, "places that set SuObject.concurrent = true")
	}

	var excN []string
	for n := range c43Exceptions {
		excN = append(excN, strings.TrimPrefix(n, "core."))
	}
	sort.Strings(excN)
	checkRecordHeaderCacheUnderWriteLock(c, "C43.5 K7 the lazily filled header cache is written under the write lock")
	checkSharedSlotStoresPropagate(c, "C43.7 K4 values stored into a concurrent closure's slots are made concurrent")
	checkClosureSetConcurrentCoversThis(c, "C43.6 K5 a closure made concurrent makes its this concurrent")
	return fmt.Sprintf("Lock discipline of shared values in package core (%d guarded accesses in %d functions and escaping literals). Guarded: SuObject.list/named/defval/readonly/version/clock/sorting by the object's rwMayLock "+
		"(reads need RLock or Lock, writes — assignment, element store, append/copy/sort target, mutating method of the map, found by effect — need Lock); every field of suRec by the record's Lock (= its object's); element accesses of Shared.values by Shared's MayLock. "+
		"Any call of Lock/RLock counts as acquisition whatever its result (MayLock-style `if x.Lock() { defer x.Unlock() }`), a non-deferred Unlock releases, deferred calls and deferred literals are given the state at their registration; "+
		"objects are (root variable, field path), a record stands for r.ob; unexported functions (and the exported NamedGet) may rely on their callers: the requirement is propagated to every call site to a fixed point, including through a method "+
		"value passed to a function that calls it (SuRecord.delete); function literals that are returned or stored are entry points; literals passed to sort/slices run at the call; objects allocated in the function, or stored into a field "+
		"from a fresh allocation earlier on every path, need no lock. Frozen exceptions: %s; list accesses of Sort/Unique while ob.sorting is set. C43.2: who may call NamedGet / SuRecordFromObject from outside core. C43.3: copyCount is *atomic.Int32, "+
		"incCopyCount replaces it only when nil, and every place that sets concurrent=true on an object also provides a counter. "+
		"Not decided: values that are not marked concurrent (precondition), lock ordering/deadlock, aliases of an object under a second variable, that a deferred call still holds the lock when the function unlocked explicitly, readers during the Sort/Unique window.",
		sites, units, strings.Join(excN, ", "))
}

func rw(k string) string {
	if k == "W" {
		return "write"
	}
	return "read"
}

// initVarName names a literal in a package-level initialiser after the variable it initialises.
func initVarName(p *Prog, fs *FuncSrc) string {
	for _, f := range fs.Pkg.Syntax {
		for _, d := range f.Decls {
			gd, ok := d.(*ast.GenDecl)
			if !ok || fs.Lit.Pos() < gd.Pos() || fs.Lit.End() > gd.End() {
				continue
			}
			for _, sp := range gd.Specs {
				if vs, ok := sp.(*ast.ValueSpec); ok && vs.Pos() <= fs.Lit.Pos() && fs.Lit.End() <= vs.End() && len(vs.Names) > 0 {
					return pkgShort(fs.Pkg.PkgPath) + ".var " + vs.Names[0].Name
				}
			}
		}
	}
	return fs.name
}

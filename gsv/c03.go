package main

import (
	"fmt"
	"go/ast"
	"go/token"
	"go/types"
)

func init() { register("C03", checkC03) }

// rootIdent strips selectors, indexing, dereferences and parentheses.
func rootIdent(e ast.Expr) *ast.Ident {
	for {
		switch x := ast.Unparen(e).(type) {
		case *ast.Ident:
			return x
		case *ast.SelectorExpr:
			e = x.X
		case *ast.IndexExpr:
			e = x.X
		case *ast.StarExpr:
			e = x.X
		case *ast.SliceExpr:
			e = x.X
		case *ast.UnaryExpr:
			if x.Op != token.AND {
				return nil
			}
			e = x.X
		default:
			return nil
		}
	}
}

// rwInfoEvents: labels "rw:<var>" when <var> is assigned the result of getRwInfo/GetRwInfo,
// "-rw:<var>" when it is assigned anything else.
func rwInfoEvents(p *Prog, getRw ...*types.Func) func(fs *FuncSrc, n ast.Node) []string {
	return func(fs *FuncSrc, n ast.Node) []string {
		as, ok := n.(*ast.AssignStmt)
		if !ok || len(as.Lhs) != len(as.Rhs) {
			return nil
		}
		var out []string
		for i, l := range as.Lhs {
			id, ok := l.(*ast.Ident)
			if !ok {
				continue
			}
			isRw := false
			if call, ok := ast.Unparen(as.Rhs[i]).(*ast.CallExpr); ok {
				cal := Callee(fs.Info(), call)
				for _, g := range getRw {
					if sameFunc(cal, g) {
						isRw = true
					}
				}
			}
			if isRw {
				out = append(out, "rw:"+id.Name)
			} else {
				out = append(out, "-rw:"+id.Name)
			}
		}
		return out
	}
}

func combine(fs ...func(*FuncSrc, ast.Node) []string) func(*FuncSrc, ast.Node) []string {
	return func(s *FuncSrc, n ast.Node) []string {
		var out []string
		for _, f := range fs {
			out = append(out, f(s, n)...)
		}
		return out
	}
}

// isCallbackInvoker: UpdateState / RunExclusive / RunEndExclusive style functions run
// their function argument synchronously once.
func db19Callbacks(p *Prog) func(callee *types.Func, arg int) bool {
	names := map[string]bool{"UpdateState": true, "updateState": true, "RunExclusive": true, "RunEndExclusive": true}
	return func(callee *types.Func, arg int) bool {
		return callee.Pkg() != nil && callee.Pkg().Path() == modPath+"/db19" && names[callee.Name()]
	}
}

func checkC03(c *Ctx) string {
	p := c.P
	a := getDb19(c, "C03.0 anchors")
	if a == nil {
		return "anchors missing"
	}

	// ---- 1. the commit case of the checker's dispatch
	r1 := "C03.1 K4 commit verdict wiring in the checker goroutine"
	dispatch := c.method(r1, "db19", "Check", "dispatch")
	ckCommitFn := p.DeclaredMethod("db19", "Check", "commit")
	utCommit := p.DeclaredMethod("db19", "UpdateTran", "commit")
	retF := p.Field("db19", "ckCommit", "ret")
	if dispatch != nil && c.need(r1, "db19.Check.commit", ckCommitFn) && c.need(r1, "db19.UpdateTran.commit", utCommit) && c.need(r1, "db19.ckCommit.ret", retF) {
		defs := buildDefs(dispatch)
		sendOn := func(label string, val string) Ev {
			return Ev{label, func(fs *FuncSrc, n ast.Node) bool {
				s, ok := n.(*ast.SendStmt)
				if !ok || FieldOf(fs.Info(), s.Chan) != retF {
					return false
				}
				v := ConstVal(fs.Info(), s.Value)
				if val == "other" {
					return v == nil
				}
				return v != nil && v.String() == val
			}}
		}
		mergeSend := Ev{"mergeChan<-", func(fs *FuncSrc, n ast.Node) bool {
			s, ok := n.(*ast.SendStmt)
			if !ok {
				return false
			}
			id, ok := ast.Unparen(s.Chan).(*ast.Ident)
			if !ok {
				return false
			}
			v, _ := fs.Info().Uses[id].(*types.Var)
			return v != nil && v == chanParam(dispatch)
		}}
		fl := &Flow{P: p, Node: Labeler(sendOn("ret<-true", "true"), sendOn("ret<-false", "false"), sendOn("ret<-?", "other"),
			CallOf("UpdateTran.commit", utCommit), CallOf("Check.commit", ckCommitFn), mergeSend),
			Edge: func(fs *FuncSrc, cond ast.Expr, truth bool) []string {
				be, ok := cond.(*ast.BinaryExpr)
				if !ok || (be.Op != token.EQL && be.Op != token.NEQ) {
					return nil
				}
				eq := (be.Op == token.EQL) == truth
				x, y := be.X, be.Y
				for i := 0; i < 2; i++ {
					if isNilIdent(fs.Info(), y) && defs.MentionsEv(fs, x, CallOf("", ckCommitFn)) {
						if eq {
							return []string{"@commit==nil"}
						}
						return []string{"@commit!=nil"}
					}
					if call, ok := ast.Unparen(x).(*ast.CallExpr); ok && IsBuiltin(fs.Info(), call, "len") && defs.MentionsEv(fs, call.Args[0], CallOf("", ckCommitFn)) {
						if v := ConstVal(fs.Info(), y); v != nil && v.String() == "0" {
							if eq {
								return []string{"@len==0"}
							}
							return []string{"@len!=0"}
						}
					}
					x, y = y, x
				}
				return nil
			}}
		res := fl.Analyze(dispatch)
		inCase := func(s *Site) bool { return s.Before.Has("@typecase:*db19.ckCommit") }
		nt, nf := 0, 0
		for _, s := range res.Of("ret<-true") {
			if !inCase(s) {
				continue
			}
			nt++
			c.Obl(r1, "success is reported only when the checker accepted the commit", p.Pos(s.Node), s.Before.Has("@commit!=nil"),
				"true is sent to the committing client on a path where Check.commit returned nil (transaction gone / aborted)")
			c.Obl(r1, "state is published before success is acknowledged", p.Pos(s.Node), s.Before.Has("UpdateTran.commit") || s.Before.Has("@len==0"),
				"true is sent before UpdateTran.commit() published the new state (and the transaction wrote something)")
		}
		for _, s := range res.Of("ret<-false") {
			if !inCase(s) {
				continue
			}
			nf++
			c.Obl(r1, "failure is reported only when the checker refused", p.Pos(s.Node), s.Before.Has("@commit==nil"), "false is sent although Check.commit accepted")
		}
		for _, s := range res.Of("ret<-?") {
			if inCase(s) {
				c.Obl(r1, "commit verdict is a constant per branch", p.Pos(s.Node), false, "non-constant value sent as commit verdict")
			}
		}
		c.Floor(r1, nt, 1, "sends of true in the ckCommit case")
		c.Floor(r1, nf, 1, "sends of false in the ckCommit case")
		for _, s := range res.Of("UpdateTran.commit") {
			c.Obl(r1, "state is published only for an accepted, non-empty commit", p.Pos(s.Node), s.Before.Has("@commit!=nil") && inCase(s),
				"UpdateTran.commit() runs on a path where the checker did not accept the transaction")
			c.Obl(r1, "published commit is acknowledged and handed to the merger", p.Pos(s.Node), s.Follows("ret<-true") && s.Follows("mergeChan<-"),
				"after publishing, a path returns without acknowledging or without queueing the merge")
		}
		c.Floor(r1, len(res.Of("UpdateTran.commit")), 1, "UpdateTran.commit calls in dispatch")
		for _, s := range res.Of("mergeChan<-") {
			if inCase(s) {
				c.Obl(r1, "merge is queued after the publish", p.Pos(s.Node), s.Before.Has("UpdateTran.commit"), "")
			}
		}
		// Check.commit: nil only for 'gone'; non-nil otherwise -- every return of the literal nil is on the !ok edge
	}

	// ---- 2. one atomic state update
	r2 := "C03.2 K13+K2 a commit is one atomic UpdateState that layers the transaction onto the latest state"
	updState := p.DeclaredMethod("db19", "Database", "UpdateState")
	layered := p.DeclaredMethod("db19/meta", "Meta", "LayeredOnto")
	metaF := p.Field("db19", "DbState", "Meta")
	if c.need(r2, "db19.Database.UpdateState", updState) && c.need(r2, "meta.Meta.LayeredOnto", layered) && c.need(r2, "db19.DbState.Meta", metaF) {
		if fs := c.src(r2, utCommit, "db19.UpdateTran.commit"); fs != nil {
			calls := p.CallsIn(fs, updState)
			c.Obl(r2, "UpdateTran.commit has exactly one UpdateState", p.Pos(fs.Decl), len(calls) == 1, fmt.Sprintf("%d UpdateState calls: the commit would be visible in pieces", len(calls)))
			ok := false
			if len(calls) == 1 && len(calls[0].Args) == 1 {
				if lit, isLit := calls[0].Args[0].(*ast.FuncLit); isLit {
					ast.Inspect(lit.Body, func(n ast.Node) bool {
						as, isAs := n.(*ast.AssignStmt)
						if !isAs || len(as.Lhs) != 1 || lhsField(fs.Info(), as.Lhs[0], false) != metaF {
							return true
						}
						if call, isCall := ast.Unparen(as.Rhs[0]).(*ast.CallExpr); isCall && sameFunc(Callee(fs.Info(), call), layered) &&
							len(call.Args) == 1 && FieldOf(fs.Info(), call.Args[0]) == metaF {
							// receiver must be the transaction's own meta
							ok = true
						}
						return true
					})
				}
			}
			c.Obl(r2, "the callback sets state.Meta = t.meta.LayeredOnto(state.Meta)", p.Pos(fs.Decl), ok,
				"the commit callback does not layer the transaction's metadata onto the state it is given")
		}
		// every store to DbState.Meta is inside a callback of UpdateState
		m := p.FuncsWith(nil, StoreTo("", false, metaF))
		n := 0
		for fs, nodes := range m {
			for _, nd := range nodes {
				n++
				ok := false
				var target ast.Expr
				switch st := nd.(type) {
				case *ast.AssignStmt:
					for _, l := range st.Lhs {
						if lhsField(fs.Info(), l, false) == metaF {
							target = l
						}
					}
				}
				if root := rootIdent(target); root != nil {
					ok = isUpdateStateParam(p, fs, fs.Info().Uses[root], updState, 3)
				}
				c.Obl("C03.2 K2 state.Meta is replaced only inside UpdateState callbacks", fs.name, p.Pos(nd), ok,
					"DbState.Meta is assigned outside an UpdateState callback: the change is not serialised with commits and may be lost or seen half-applied")
			}
		}
		c.Floor("C03.2 K2 state.Meta is replaced only inside UpdateState callbacks", n, 3, "stores to DbState.Meta")
	}

	// ---- 3. result chain
	r3 := "C03.3 K8 the commit verdict reaches the caller"
	ckCommitI := p.IfaceMethod("db19", "Checker", "Commit")
	coCommit := p.DeclaredMethod("db19", "CheckCo", "Commit")
	if c.need(r3, "db19.Checker.Commit", ckCommitI) {
		n := 0
		for _, fs := range p.AllSrcs {
			if fs.Body == nil || fs.Lit != nil {
				continue
			}
			par := parentMap(fs.Body)
			ForEachNode(fs, func(nd ast.Node) {
				call, ok := nd.(*ast.CallExpr)
				if !ok {
					return
				}
				cal := Callee(fs.Info(), call)
				if !sameFunc(cal, ckCommitI) && !sameFunc(cal, coCommit) && !sameFunc(cal, p.DeclaredMethod("db19", "Check", "Commit")) {
					return
				}
				n++
				_, dropped := par[call].(*ast.ExprStmt)
				c.Obl(r3, fs.name+": result of Checker.Commit is used", p.Pos(call), !dropped, "the verdict of the commit is discarded")
			})
		}
		c.Floor(r3, n, 2, "calls of Checker.Commit")
	}
	// UpdateTran.Complete: "" only on the accepted edge
	if fs := c.method(r3, "db19", "UpdateTran", "Complete"); fs != nil && ckCommitI != nil {
		fl := &Flow{P: p, Edge: func(f *FuncSrc, cond ast.Expr, truth bool) []string {
			if call, ok := cond.(*ast.CallExpr); ok && sameFunc(Callee(f.Info(), call), ckCommitI) {
				if truth {
					return []string{"@committed"}
				}
				return []string{"@refused"}
			}
			return nil
		}}
		res := fl.Analyze(fs)
		nr := 0
		for _, r := range res.Returns {
			if len(r.Node.Results) != 1 {
				continue
			}
			nr++
			v := ConstVal(fs.Info(), r.Node.Results[0])
			isEmpty := v != nil && v.ExactString() == `""`
			if isEmpty {
				c.Obl(r3, "UpdateTran.Complete returns \"\" only when the checker committed", p.Pos(r.Node), r.Before.Has("@committed"),
					"Complete reports success on a path where Checker.Commit did not return true")
			} else {
				c.Obl(r3, "UpdateTran.Complete returns the failure text when refused", p.Pos(r.Node), r.Before.Has("@refused"), "")
			}
		}
		c.Floor(r3, nr, 2, "returns of UpdateTran.Complete")
	}
	// SuTran.Complete: a non-empty result of itran.Complete() reaches a panic
	itranComplete := p.IfaceMethod("core", "ITran", "Complete")
	if fs := c.method(r3, "core", "SuTran", "Complete"); fs != nil && c.need(r3, "core.ITran.Complete", itranComplete) {
		defs := buildDefs(fs)
		fl := &Flow{P: p, Node: Labeler(PanicCall("panic"), CallOf("itran.Complete", itranComplete)),
			Edge: func(f *FuncSrc, cond ast.Expr, truth bool) []string {
				be, ok := cond.(*ast.BinaryExpr)
				if !ok || (be.Op != token.NEQ && be.Op != token.EQL) {
					return nil
				}
				for _, pr := range [][2]ast.Expr{{be.X, be.Y}, {be.Y, be.X}} {
					if v := ConstVal(f.Info(), pr[1]); v != nil && v.ExactString() == `""` && defs.MentionsEv(f, pr[0], CallOf("", itranComplete)) {
						if (be.Op == token.NEQ) == truth {
							return []string{"@failed"}
						}
						return []string{"@succeeded"}
					}
				}
				return nil
			}}
		res := fl.Analyze(fs)
		n := 0
		for _, s := range res.Of("panic") {
			if s.Before.Has("@failed") {
				n++
			}
		}
		c.Obl(r3, "SuTran.Complete panics when the transaction failed to commit", p.Pos(fs.Decl), n >= 1,
			"no panic is reachable only on the edge where itran.Complete() returned a non-empty failure")
		for _, r := range res.Returns {
			if r.Before.Has("itran.Complete") {
				c.Obl(r3, "SuTran.Complete returns normally after a commit attempt only if it succeeded", p.Pos(r.Node), r.Before.Has("@succeeded"),
					"SuTran.Complete can return normally although the commit failed")
			}
		}
		par := parentMap(fs.Body)
		for _, call := range p.CallsIn(fs, itranComplete) {
			_, dropped := par[call].(*ast.ExprStmt)
			c.Obl(r3, "SuTran.Complete uses the result of itran.Complete", p.Pos(call), !dropped, "result dropped")
		}
	}
	// server Commit handler: result=="" <-> PutBool(true)
	checkC03ServerCommit(c, r3)

	// ---- 4. failure reason before removal
	r4 := "C03.4 K4 an aborted transaction has its failure reason before it disappears"
	failF := p.Field("db19", "CkTran", "failure")
	actv := p.Field("db19", "Check", "actvTran")
	if fs := c.method(r4, "db19", "Check", "abort"); fs != nil && c.need(r4, "db19.CkTran.failure", failF) && c.need(r4, "db19.Check.actvTran", actv) {
		evDel := Ev{"delete(actvTran)", func(f *FuncSrc, n ast.Node) bool {
			call, ok := n.(*ast.CallExpr)
			return ok && IsBuiltin(f.Info(), call, "delete") && len(call.Args) == 2 && FieldOf(f.Info(), call.Args[0]) == actv
		}}
		fl := &Flow{P: p, Node: Labeler(MethodOnField("failure.Store", failF, "Store"), evDel)}
		res := fl.Analyze(fs)
		c.RequireBefore(r4, res, "delete(actvTran)", 1, "failure.Store")
	}

	// ---- 5. counters
	checkC03Counters(c, a)

	checkWriteLimitAborts(c, "C03.9 K4 reaching the write limit aborts the transaction")
	checkCompleteOutcome(c, "C03.10 K4c the completed status is stored only after a successful commit")
	checkAbortAlwaysQueued(c, "C03.11 K5 an abort request always reaches the checker")
	if ta := getTranAnchors(c, "C03.12 anchors"); ta != nil {
		checkMutationAbortWrapper(c, ta, "C03.12 K4 index mutations run under recover→Abort→re-panic")
	}
	checkTranInfoHonoursOwnChanges(c, "C03.8 K9 a transaction's Info accessors honour its own changes")
	return "Static wiring of commit atomicity and truthfulness: in the checker's ckCommit case 'true' is sent only on the edge where Check.commit returned non-nil and after UpdateTran.commit " +
		"(one UpdateState whose callback layers the transaction onto the state it receives); 'false' only on the nil edge; DbState.Meta is assigned only inside UpdateState callbacks; the verdict is " +
		"never dropped up to UpdateTran.Complete, SuTran.Complete (panics on failure) and the server's Commit handler; abort stores the failure reason before removing the transaction; every " +
		"index mutation in UpdateTran is accompanied by the matching row/size counter update on the rw Info. Not decided: arithmetic of deltas."
}

func checkC03ServerCommit(c *Ctx, r3 string) {
	p := c.P
	itranComplete := p.IfaceMethod("core", "ITran", "Complete")
	putBool := p.DeclaredMethod("dbms/csio", "ReadWrite", "PutBool")
	if putBool == nil {
		putBool = p.Method("dbms/csio", "ReadWrite", "PutBool")
	}
	if itranComplete == nil {
		return
	}
	// discover: functions in package dbms stored in the cmds table that call ITran.Complete
	var handlers []*FuncSrc
	for _, fs := range p.FuncsIn("dbms") {
		if fs.Obj == nil || fs.Obj.Type().(*types.Signature).Recv() != nil {
			continue
		}
		sig := fs.Obj.Type().(*types.Signature)
		if sig.Params().Len() != 1 || sig.Results().Len() != 0 {
			continue
		}
		if len(p.CallsIn(fs, itranComplete)) > 0 {
			handlers = append(handlers, fs)
		}
	}
	n := 0
	for _, fs := range handlers {
		defs := buildDefs(fs)
		par := parentMap(fs.Body)
		for _, call := range p.CallsIn(fs, itranComplete) {
			if _, isDefer := par[call].(*ast.DeferStmt); isDefer {
				continue
			}
			n++
			_, dropped := par[call].(*ast.ExprStmt)
			c.Obl(r3, fs.name+": server handler uses the result of tran.Complete()", p.Pos(call), !dropped, "the server drops the commit verdict")
		}
		putConst := func(label, val string) Ev {
			return Ev{label, func(f *FuncSrc, nd ast.Node) bool {
				call, ok := nd.(*ast.CallExpr)
				if !ok || len(call.Args) != 1 {
					return false
				}
				cal := Callee(f.Info(), call)
				if cal == nil || cal.Name() != "PutBool" {
					return false
				}
				v := ConstVal(f.Info(), call.Args[0])
				return v != nil && v.String() == val
			}}
		}
		fl := &Flow{P: p, Node: Labeler(putConst("PutBool(true)", "true"), putConst("PutBool(false)", "false")),
			Edge: func(f *FuncSrc, cond ast.Expr, truth bool) []string {
				be, ok := cond.(*ast.BinaryExpr)
				if !ok || (be.Op != token.NEQ && be.Op != token.EQL) {
					return nil
				}
				for _, pr := range [][2]ast.Expr{{be.X, be.Y}, {be.Y, be.X}} {
					if v := ConstVal(f.Info(), pr[1]); v != nil && v.ExactString() == `""` && defs.MentionsEv(f, pr[0], CallOf("", itranComplete)) {
						if (be.Op == token.EQL) == truth {
							return []string{"@ok"}
						}
						return []string{"@failed"}
					}
				}
				return nil
			}}
		res := fl.Analyze(fs)
		sawFalse := false
		for _, s := range res.Of("PutBool(false)") {
			sawFalse = true
			c.Obl(r3, fs.name+": failure is sent only when Complete returned a reason", p.Pos(s.Node), s.Before.Has("@failed"), "")
		}
		trueAfterOk := 0
		for _, s := range res.Of("PutBool(true)") {
			if s.Before.Has("@ok") {
				trueAfterOk++
			}
			if s.Before.Has("@failed") {
				c.Obl(r3, fs.name+": success is not sent on the failed edge", p.Pos(s.Node), false, "PutBool(true) on the edge where Complete returned a failure")
			}
		}
		if len(res.Of("PutBool(false)"))+len(res.Of("PutBool(true)")) > 0 && defsHasNonDeferComplete(p, fs, itranComplete) {
			c.Obl(r3, fs.name+": both verdicts are wired", p.Pos(fs.Decl), sawFalse && trueAfterOk > 0,
				"the handler does not send true on the success edge and false on the failure edge of tran.Complete()")
		}
	}
	c.Floor(r3, n, 1, "server handlers that commit")
	_ = putBool
}

func defsHasNonDeferComplete(p *Prog, fs *FuncSrc, f *types.Func) bool {
	par := parentMap(fs.Body)
	for _, call := range p.CallsIn(fs, f) {
		if _, isDefer := par[call].(*ast.DeferStmt); !isDefer {
			return true
		}
	}
	return false
}

func checkC03Counters(c *Ctx, a *db19A) {
	p := c.P
	r5 := "C03.5 K6 row/size statistics change with every index mutation"
	nrows := p.Field("db19/meta", "Info", "Nrows")
	size := p.Field("db19/meta", "Info", "Size")
	getRw := p.DeclaredMethod("db19", "UpdateTran", "getRwInfo")
	getRwM := p.DeclaredMethod("db19/meta", "Meta", "GetRwInfo")
	if !c.need(r5, "meta.Info.Nrows", nrows) || !c.need(r5, "meta.Info.Size", size) || !c.need(r5, "db19.UpdateTran.getRwInfo", getRw) || !c.need(r5, "meta.Meta.GetRwInfo", getRwM) {
		return
	}
	nrowsEv := func(fs *FuncSrc, n ast.Node) []string {
		switch s := n.(type) {
		case *ast.IncDecStmt:
			if lhsField(fs.Info(), s.X, false) == nrows {
				if s.Tok == token.INC {
					return []string{"Nrows+"}
				}
				return []string{"Nrows-"}
			}
		case *ast.AssignStmt:
			for _, l := range s.Lhs {
				if lhsField(fs.Info(), l, false) == nrows {
					switch s.Tok {
					case token.ADD_ASSIGN:
						return []string{"Nrows+"}
					case token.SUB_ASSIGN:
						return []string{"Nrows-"}
					}
					return []string{"Nrows="}
				}
			}
		}
		return nil
	}
	for _, fs := range a.mutators {
		fl := &Flow{P: p, Node: combine(Labeler(CallOf("ov.Insert", a.ovInsert), CallOf("ov.Delete", a.ovDelete), CallOf("ov.Update", a.ovUpdate),
			StoreTo("Size=", false, size)), nrowsEv, rwInfoEvents(p, getRw, getRwM))}
		res := fl.Analyze(fs)
		ins, del, upd := res.Of("ov.Insert"), res.Of("ov.Delete"), res.Of("ov.Update")
		kind := "update"
		if len(ins) > 0 && len(del) == 0 && len(upd) == 0 {
			kind = "insert"
		} else if len(del) > 0 && len(ins) == 0 && len(upd) == 0 {
			kind = "delete"
		}
		for _, s := range append(append(append([]*Site{}, ins...), del...), upd...) {
			has := func(l string) bool { return s.Before.Has(l) || s.Follows(l) }
			switch kind {
			case "insert":
				c.Obl(r5, fs.name+" (insert-only): Nrows incremented with the insert", p.Pos(s.Node), has("Nrows+") && !has("Nrows-"),
					"a row is added to the indexes on a path where the table's row count is not incremented")
				c.Obl(r5, fs.name+" (insert-only): Size updated with the insert", p.Pos(s.Node), has("Size="), "table size not updated")
			case "delete":
				c.Obl(r5, fs.name+" (delete-only): Nrows decremented with the delete", p.Pos(s.Node), has("Nrows-") && !has("Nrows+"),
					"a row is removed from the indexes on a path where the table's row count is not decremented")
				c.Obl(r5, fs.name+" (delete-only): Size updated with the delete", p.Pos(s.Node), has("Size="), "table size not updated")
			default:
				c.Obl(r5, fs.name+" (update): Size updated, Nrows untouched", p.Pos(s.Node),
					has("Size=") && len(res.Of("Nrows+"))+len(res.Of("Nrows-"))+len(res.Of("Nrows=")) == 0,
					"an in-place update must adjust the size and leave the row count alone")
			}
			// receiver of the mutation and of the counter is the rw Info
			if call, ok := s.Node.(*ast.CallExpr); ok {
				if sel, ok := call.Fun.(*ast.SelectorExpr); ok {
					root := rootIdent(sel.X)
					okRw := false
					if root != nil {
						okRw = s.Before.Has("rw:" + root.Name)
						if !okRw {
							// ix := ti.Indexes[i] one level
							defs := buildDefs(fs)
							if o := fs.Info().Uses[root]; o != nil {
								for _, rhs := range defs.defs[o] {
									if r2 := rootIdent(rhs); r2 != nil && s.Before.Has("rw:"+r2.Name) {
										okRw = true
									}
								}
							}
						}
					}
					c.Obl("C03.5 K11 index mutations go to the transaction's private (rw) Info", fs.name+": "+s.Label, p.Pos(s.Node), okRw,
						"the mutated overlay does not come from getRwInfo on every path: a shared, published Info/Overlay would be modified in place")
				}
			}
		}
		for _, l := range []string{"Nrows+", "Nrows-", "Nrows=", "Size="} {
			for _, s := range res.Of(l) {
				var target ast.Expr
				switch st := s.Node.(type) {
				case *ast.IncDecStmt:
					target = st.X
				case *ast.AssignStmt:
					target = st.Lhs[0]
				}
				root := rootIdent(target)
				c.Obl("C03.5 K11 counters are written on the transaction's private (rw) Info", fs.name+": "+l, p.Pos(s.Node),
					root != nil && s.Before.Has("rw:"+root.Name), "the counter is stored through a value that is not (on every path) the result of getRwInfo")
			}
		}
	}
	c.Floor(r5, len(a.mutators), 3, "index-mutating functions in db19")

	// LayeredOnto: a Delta is appended in the same loop iteration as UpdateWith
	r6 := "C03.5 K6 commit appends a delta together with each new index layer"
	deltas := p.Field("db19/meta", "Info", "Deltas")
	updWith := p.DeclaredMethod("db19/index", "Overlay", "UpdateWith")
	if fs := c.method(r6, "db19/meta", "Meta", "LayeredOnto"); fs != nil && c.need(r6, "meta.Info.Deltas", deltas) && c.need(r6, "index.Overlay.UpdateWith", updWith) {
		fl := &Flow{P: p, Node: Labeler(StoreTo("Deltas=", false, deltas), CallOf("UpdateWith", updWith), StoreTo("Nrows=", false, nrows), StoreTo("Size=", false, size))}
		res := fl.Analyze(fs)
		for _, s := range res.Of("UpdateWith") {
			c.Obl(r6, "LayeredOnto: Deltas extended before the layers", p.Pos(s.Node), s.Before.Has("Deltas=") && s.Before.Has("Nrows=") && s.Before.Has("Size="),
				"a layer is added to the indexes without a matching entry in Deltas / rebased Nrows,Size (Info.Check: len(Deltas)==Nlayers, sums equal)")
		}
		c.Floor(r6, len(res.Of("UpdateWith")), 1, "UpdateWith in LayeredOnto")
	}
	// Apply reaches Apply1 for every update
	if fs := c.function(r6, "db19/meta", "Apply"); fs != nil {
		n1, n2 := 0, 0
		ForEachNode(fs, func(n ast.Node) {
			if call, ok := n.(*ast.CallExpr); ok {
				if cal := Callee(fs.Info(), call); cal != nil {
					if cal.Name() == "Apply1" {
						n1++
					}
					if cal.Name() == "Apply2" {
						n2++
					}
				}
			}
		})
		c.Obl(r6, "meta.Apply calls Apply1 (deltas) and Apply2 (indexes) for every update", p.Pos(fs.Decl), n1 >= 1 && n2 >= 1, "")
	}
}

// isUpdateStateParam: obj is the *DbState parameter of a literal passed to UpdateState /
// updateState, or a parameter of a named function all of whose callers pass such a value.
func isUpdateStateParam(p *Prog, outer *FuncSrc, obj types.Object, updState *types.Func, depth int) bool {
	v, ok := obj.(*types.Var)
	if !ok || depth == 0 {
		return false
	}
	// which function declares obj as a parameter?
	var owner *FuncSrc
	idx := -1
	cands := append([]*FuncSrc{outer}, p.LitsOf(outer)...)
	for _, fs := range cands {
		if fs.Type == nil || fs.Type.Params == nil {
			continue
		}
		i := 0
		for _, fld := range fs.Type.Params.List {
			for _, nm := range fld.Names {
				if fs.Info().Defs[nm] == types.Object(v) {
					owner, idx = fs, i
				}
				i++
			}
		}
	}
	if owner == nil {
		return false
	}
	if owner.Lit != nil {
		par := parentMap(outer.Body)[owner.Lit]
		call, isCall := par.(*ast.CallExpr)
		if !isCall {
			return false
		}
		cal := Callee(outer.Info(), call)
		return sameFunc(cal, updState) || (cal != nil && cal.Name() == "updateState" && cal.Pkg() == updState.Pkg())
	}
	// named function: all callers
	sites := p.CallersOf(owner.Obj)
	if len(sites) == 0 {
		return false
	}
	for _, s := range sites {
		if s.Call == nil || idx >= len(s.Call.Args) {
			return false
		}
		id, isId := ast.Unparen(s.Call.Args[idx]).(*ast.Ident)
		if !isId {
			return false
		}
		if !isUpdateStateParam(p, s.Fn, s.In.Info().Uses[id], updState, depth-1) {
			return false
		}
	}
	return true
}

// chanParam returns the (single) channel-typed parameter of a declared function.
func chanParam(fs *FuncSrc) *types.Var {
	if fs.Obj == nil {
		return nil
	}
	ps := fs.Obj.Type().(*types.Signature).Params()
	for i := 0; i < ps.Len(); i++ {
		if _, ok := ps.At(i).Type().Underlying().(*types.Chan); ok {
			return ps.At(i)
		}
	}
	return nil
}

// boolParam returns the (single) bool parameter of a declared function.
func boolParam(fs *FuncSrc) *types.Var {
	if fs.Obj == nil {
		return nil
	}
	ps := fs.Obj.Type().(*types.Signature).Params()
	var found *types.Var
	for i := 0; i < ps.Len(); i++ {
		if types.Identical(ps.At(i).Type().Underlying(), types.Typ[types.Bool]) {
			if found != nil {
				return nil
			}
			found = ps.At(i)
		}
	}
	return found
}

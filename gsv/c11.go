package main

// C11 index buffer merging: flag-bit constants, the add/update/delete combination table
// (ixbuf.Combine evaluated over the finite domain of flag pairs), and "merge never
// stores into its inputs".

import (
	"fmt"
	"go/ast"
	"go/constant"
	"go/token"
	"go/types"
	"sort"
	"strings"
)

func init() { register("C11", checkC11, "./db19/index/...") }

type ixOp int

const (
	opAdd ixOp = iota
	opUpdate
	opDelete
)

var ixOpNames = [...]string{"add", "update", "delete"}

// unless returns the explanation only for a failed obligation.
func unless(ok bool, detail string) string {
	if ok {
		return ""
	}
	return detail
}

func u64(v constant.Value) (uint64, bool) {
	if v == nil || v.Kind() != constant.Int {
		return 0, false
	}
	return constant.Uint64Val(v)
}

func checkC11(c *Ctx) string {
	p := c.P
	const pk = "db19/index/ixbuf"
	r1 := "C11.1 K1 flag bits of an index-buffer offset"
	vUpd, okU := u64(p.Const(pk, "Update"))
	vDel, okD := u64(p.Const(pk, "Delete"))
	vIns, okI := u64(p.Const(pk, "Insert"))
	vMask, okM := u64(p.Const(pk, "Mask"))
	if !okU {
		c.Missing(r1, "constant ixbuf.Update (uint64)")
	}
	if !okD {
		c.Missing(r1, "constant ixbuf.Delete (uint64)")
	}
	if !okI {
		c.Missing(r1, "constant ixbuf.Insert (uint64)")
	}
	if !okM {
		c.Missing(r1, "constant ixbuf.Mask (uint64)")
	}
	if !(okU && okD && okI && okM) {
		return "anchors missing"
	}
	ok1 := vIns == 0 && vUpd != 0 && vDel != 0 && vUpd&vDel == 0
	c.Obl(r1, "Insert == 0, Update and Delete are non-zero and share no bit", "", ok1, unless(ok1,
		fmt.Sprintf("Insert=%#x Update=%#x Delete=%#x: an add must carry no flag and update/delete must be distinguishable by one test of their own bit (off&Delete != 0 is used by every reader)", vIns, vUpd, vDel)))
	ok2 := vMask&(vUpd|vDel) == 0 && vMask != 0 && vMask&(vMask+1) == 0
	c.Obl(r1, "Mask & (Update|Delete) == 0 and Mask is a block of low bits", "", ok2, unless(ok2,
		fmt.Sprintf("Mask=%#x Update=%#x Delete=%#x: off&Mask must strip exactly the flags and keep the whole offset", vMask, vUpd, vDel)))
	if maxOff, ok := u64(p.Const("db19/stor", "MaxSmallOffset")); ok {
		c.Obl(r1, "Mask covers every offset the storage can hand out (stor.MaxSmallOffset)", "", vMask >= maxOff, unless(vMask >= maxOff,
			fmt.Sprintf("Mask=%#x < stor.MaxSmallOffset=%#x: off&Mask would truncate valid record offsets", vMask, maxOff)))
	} else {
		c.Missing(r1, "constant stor.MaxSmallOffset")
	}

	// ---- Combine
	r2 := "C11.2 K14 Combine(off1, off2) implements the add/update/delete table"
	fs := c.function(r2, pk, "Combine")
	if fs != nil {
		checkCombine(c, r1, r2, fs, vUpd, vDel, vMask)
	}

	// ---- merge never stores into its inputs
	checkMergeInputs(c)

	checkPassthruRefusesEqualKey(c, "C11.6 K14 pass-through refuses a chunk that continues the last buffered key")
	return "Decided: (1) with go/constant: Insert==0, Update/Delete non-zero and disjoint, Mask a low-bit block disjoint from both flags and >= stor.MaxSmallOffset; the switch tag of Combine, evaluated for the 9 flag pairs, " +
		"separates each of the 5 valid pairs from every other pair, and every case constant named after a valid pair (<op>_<op>) equals the encoding of that pair; " +
		"(2) ixbuf.Combine abstractly evaluated (AbsEnv.run) for {add, update, delete}×{add, update, delete} with three pairs of representative offsets against the table written in the checker " +
		"(add+update→add(off2); add+delete→0 (entry removed); update+update→update(off2), oldoff=off1; update+delete→delete(off2), oldoff=off1; delete+add→update(off2); add+add, update+add, delete+update, delete+delete→panic); " +
		"(3) in Merge and everything it reaches inside package ixbuf, every store (assignment, inc/dec, copy destination, first argument of append) whose target has one of the input types (*ixbuf, []chunk, chunk, *slot) " +
		"goes to freshly made storage or to a field of merge that is itself only ever assigned fresh/self-derived slices; stores through parameters are checked at the call sites. " +
		"Not decided: the k-way merge order, chunk pass-through conditions, sortedness/uniqueness of the result, chunk splitting in Insert."
}

// combineRun evaluates Combine for concrete arguments.
type combineOut struct {
	panics  bool
	unknown string
	result  uint64
	oldoff  uint64
	tag     constant.Value // value of the switch tag (nil if Combine has no tagged switch)
}

func combineRun(fs *FuncSrc, off1, off2 uint64) combineOut {
	info := fs.Info()
	sig := fs.Obj.Type().(*types.Signature)
	if sig.Params().Len() != 2 || sig.Results().Len() != 2 {
		return combineOut{unknown: "signature of Combine is not (off1, off2 uint64) (result, oldoff uint64)"}
	}
	p1, p2 := sig.Params().At(0), sig.Params().At(1)
	mk := func() *AbsEnv {
		return &AbsEnv{Info: info, Locals: map[types.Object]constant.Value{}, Atom: func(e ast.Expr) (constant.Value, bool) {
			if id, ok := e.(*ast.Ident); ok {
				switch info.Uses[id] {
				case types.Object(p1):
					return constant.MakeUint64(off1), true
				case types.Object(p2):
					return constant.MakeUint64(off2), true
				}
			}
			return nil, false
		}}
	}
	out := combineOut{}
	// the switch tag, for the encoding obligations
	env := mk()
	for _, st := range fs.Body.List {
		if sw, ok := st.(*ast.SwitchStmt); ok && sw.Tag != nil {
			if sw.Init != nil {
				env.stmt(sw.Init)
			}
			out.tag = env.expr(sw.Tag)
			break
		}
		if _, done := env.stmt(st); done {
			break
		}
	}
	env = mk()
	res := env.run(fs.Body)
	out.panics, out.unknown = res.Panics, res.Unknown
	if res.Panics || res.Unknown != "" {
		return out
	}
	get := func(i int) (uint64, bool) {
		var v constant.Value
		if len(res.Returns) == 2 {
			v = res.Returns[i]
		} else if len(res.Returns) == 0 {
			r := sig.Results().At(i)
			if r.Name() == "" || r.Name() == "_" {
				return 0, false
			}
			var set bool
			v, set = env.Locals[r]
			if !set {
				return 0, true // named result never assigned: zero
			}
		}
		return u64(v)
	}
	var ok1, ok2 bool
	out.result, ok1 = get(0)
	out.oldoff, ok2 = get(1)
	if !ok1 || !ok2 {
		out.unknown = "a returned value is not a constant the evaluator can compute"
	}
	return out
}

func checkCombine(c *Ctx, r1, r2 string, fs *FuncSrc, vUpd, vDel, vMask uint64) {
	p := c.P
	flag := [...]uint64{0, vUpd, vDel}
	// representative offsets inside Mask, with high and low bits set, different from each other
	A := (vMask >> 3) + 0x77
	B := vMask - 0x123
	offs := [][2]uint64{{A, B}, {B, A}, {A, A}}
	type cell struct{ k1, k2 ixOp }
	valid := map[cell]bool{{opAdd, opUpdate}: true, {opAdd, opDelete}: true, {opUpdate, opUpdate}: true, {opUpdate, opDelete}: true, {opDelete, opAdd}: true}
	tags := map[cell]constant.Value{}
	nEval := 0
	for k1 := opAdd; k1 <= opDelete; k1++ {
		for k2 := opAdd; k2 <= opDelete; k2++ {
			var bad []string
			for _, ab := range offs {
				a, b := ab[0], ab[1]
				got := combineRun(fs, a|flag[k1], b|flag[k2])
				nEval++
				if tags[cell{k1, k2}] == nil {
					tags[cell{k1, k2}] = got.tag
				}
				desc := fmt.Sprintf("Combine(%s %#x, %s %#x)", ixOpNames[k1], a, ixOpNames[k2], b)
				if got.unknown != "" {
					bad = append(bad, desc+": not evaluable: "+got.unknown)
					continue
				}
				if !valid[cell{k1, k2}] {
					if !got.panics {
						bad = append(bad, fmt.Sprintf("%s: want panic (invalid sequence), got result=%s oldoff=%#x", desc, offStr(got.result, vUpd, vDel, vMask), got.oldoff))
					}
					continue
				}
				if got.panics {
					bad = append(bad, desc+": want a result, got panic")
					continue
				}
				var want uint64
				oldMust := false
				switch (cell{k1, k2}) {
				case cell{opAdd, opUpdate}:
					want = b // still an add in this layer, at the new offset
				case cell{opAdd, opDelete}:
					want = 0 // the entry disappears
				case cell{opUpdate, opUpdate}:
					want, oldMust = b|vUpd, true
				case cell{opUpdate, opDelete}:
					want, oldMust = b|vDel, true // the add is in a lower layer: keep the tombstone
				case cell{opDelete, opAdd}:
					want = b | vUpd // lower layers hold the old entry: this is an update of it
				}
				if got.result != want {
					bad = append(bad, fmt.Sprintf("%s: want result %s, got %s", desc, offStr(want, vUpd, vDel, vMask), offStr(got.result, vUpd, vDel, vMask)))
				}
				if oldMust && got.oldoff != a {
					bad = append(bad, fmt.Sprintf("%s: want oldoff %#x (the offset being replaced, used by UpdateTran to detect two changes of one record), got %#x", desc, a, got.oldoff))
				}
				if !oldMust && got.oldoff != 0 && got.oldoff != a {
					bad = append(bad, fmt.Sprintf("%s: oldoff %#x is neither 0 nor the plain previous offset", desc, got.oldoff))
				}
			}
			want := "panic"
			switch (cell{k1, k2}) {
			case cell{opAdd, opUpdate}:
				want = "add(off2)"
			case cell{opAdd, opDelete}:
				want = "0 (entry removed)"
			case cell{opUpdate, opUpdate}:
				want = "update(off2), oldoff=off1"
			case cell{opUpdate, opDelete}:
				want = "delete(off2), oldoff=off1"
			case cell{opDelete, opAdd}:
				want = "update(off2)"
			}
			c.Obl(r2, fmt.Sprintf("%s then %s ⇒ %s", ixOpNames[k1], ixOpNames[k2], want), p.Pos(fs.Decl), len(bad) == 0,
				unless(len(bad) == 0, "merging layers no longer equals applying their changes in order: "+strings.Join(bad, "; ")))
		}
	}
	c.Stats["combine_evaluations"] = nEval
	c.Floor(r2, nEval, 27, "abstract evaluations of Combine")

	// encoding of the flag pair (switch tag) and the named case constants
	haveTags := true
	for _, v := range tags {
		if v == nil {
			haveTags = false
		}
	}
	if !haveTags {
		c.Note("C11.1: Combine has no top-level switch with a computable tag; the pair-encoding obligations are subsumed by the table (C11.2)")
		return
	}
	var clash []string
	for k1 := opAdd; k1 <= opDelete; k1++ {
		for k2 := opAdd; k2 <= opDelete; k2++ {
			if !valid[cell{k1, k2}] {
				continue
			}
			for j1 := opAdd; j1 <= opDelete; j1++ {
				for j2 := opAdd; j2 <= opDelete; j2++ {
					if (j1 != k1 || j2 != k2) && constant.Compare(tags[cell{k1, k2}], token.EQL, tags[cell{j1, j2}]) {
						clash = append(clash, fmt.Sprintf("%s_%s and %s_%s both encode as %s", ixOpNames[k1], ixOpNames[k2], ixOpNames[j1], ixOpNames[j2], tags[cell{k1, k2}]))
					}
				}
			}
		}
	}
	c.Obl(r1, "the pair encoding switched on by Combine separates every valid pair from every other pair", p.Pos(fs.Decl), len(clash) == 0, strings.Join(clash, "; "))
	// case constants named <op>_<op>
	info := fs.Info()
	nNamed := 0
	for _, st := range fs.Body.List {
		sw, ok := st.(*ast.SwitchStmt)
		if !ok || sw.Tag == nil {
			continue
		}
		for _, cl := range sw.Body.List {
			for _, ce := range cl.(*ast.CaseClause).List {
				id, ok := ast.Unparen(ce).(*ast.Ident)
				if !ok {
					continue
				}
				co, ok := info.Uses[id].(*types.Const)
				if !ok {
					continue
				}
				parts := strings.Split(co.Name(), "_")
				if len(parts) != 2 {
					continue
				}
				k1, k2 := -1, -1
				for i, n := range ixOpNames {
					if parts[0] == n {
						k1 = i
					}
					if parts[1] == n {
						k2 = i
					}
				}
				if k1 < 0 || k2 < 0 || !valid[cell{ixOp(k1), ixOp(k2)}] {
					continue // the names of the invalid pairs only select the panic message
				}
				nNamed++
				want := tags[cell{ixOp(k1), ixOp(k2)}]
				okc := constant.Compare(co.Val(), token.EQL, want)
				c.Obl(r1, "case constant "+co.Name()+" equals the encoding of ("+parts[0]+", "+parts[1]+")", p.PosOf(co.Pos()), okc, unless(okc,
					fmt.Sprintf("%s = %s but the switch tag for an %s entry followed by an %s entry is %s: the case handles a different pair than its name and comment say", co.Name(), co.Val(), parts[0], parts[1], want)))
			}
		}
		break
	}
	c.Stats["named_case_constants"] = nNamed
}

func offStr(off, upd, del, mask uint64) string {
	if off == 0 {
		return "0"
	}
	s := ""
	switch off &^ mask {
	case 0:
		s = "add"
	case upd:
		s = "update"
	case del:
		s = "delete"
	default:
		s = fmt.Sprintf("flags %#x", off&^mask)
	}
	return fmt.Sprintf("%s(%#x)", s, off&mask)
}

// ---------------------------------------------------------------- inputs are not written

func checkMergeInputs(c *Ctx) {
	p := c.P
	const pk = "db19/index/ixbuf"
	r3 := "C11.3 K12 Merge does not store into its input buffers"
	mergeFn := c.function(r3, pk, "Merge")
	tIxbuf, tSlot, tChunk, tMerge := p.NamedType(pk, "ixbuf"), p.NamedType(pk, "slot"), p.NamedType(pk, "chunk"), p.NamedType(pk, "merge")
	if mergeFn == nil || !c.need(r3, "type ixbuf.ixbuf", tIxbuf) || !c.need(r3, "type ixbuf.slot", tSlot) || !c.need(r3, "type ixbuf.chunk", tChunk) || !c.need(r3, "type ixbuf.merge", tMerge) {
		return
	}
	isNamed := func(t types.Type, n *types.Named) bool {
		nt, ok := types.Unalias(t).(*types.Named)
		return ok && nt.Obj() == n.Obj()
	}
	// memory an input buffer consists of: the ixbuf struct, its array of chunks, the arrays of slots
	var isInputMem func(t types.Type) bool
	isInputMem = func(t types.Type) bool {
		if t == nil {
			return false
		}
		if isNamed(t, tChunk) {
			return true
		}
		switch u := types.Unalias(t).(type) {
		case *types.Pointer:
			e := u.Elem()
			return isNamed(e, tIxbuf) || isNamed(e, tSlot) || isInputMem(e)
		case *types.Slice:
			return isNamed(u.Elem(), tSlot) || isNamed(u.Elem(), tChunk)
		}
		return false
	}
	fresh := func(f *types.Func) bool {
		return f.Pkg() != nil && strings.HasSuffix(f.Pkg().Path(), "/util/slc") && f.Name() == "Clone"
	}
	// scope: Merge and the functions of the package it reaches
	scope := map[*types.Func]*FuncSrc{mergeFn.Obj: mergeFn}
	work := []*FuncSrc{mergeFn}
	for len(work) > 0 {
		fs := work[0]
		work = work[1:]
		ForEachNode(fs, func(n ast.Node) {
			if call, ok := n.(*ast.CallExpr); ok {
				if f := Callee(fs.Info(), call); f != nil && scope[f] == nil {
					if g := p.Src(f); g != nil && g.Body != nil && g.Pkg == mergeFn.Pkg {
						scope[f] = g
						work = append(work, g)
					}
				}
			}
		})
	}
	var fns []*FuncSrc
	for _, fs := range scope {
		fns = append(fns, fs)
	}
	sort.Slice(fns, func(i, j int) bool { return fns[i].name < fns[j].name })
	c.Floor(r3, len(fns), 8, "functions reached from ixbuf.Merge inside the package")
	walkers := map[*FuncSrc]*aliasWalk{}
	walker := func(fs *FuncSrc) *aliasWalk {
		if w := walkers[fs]; w != nil {
			return w
		}
		w := &aliasWalk{fs: fs, defs: aliasDefs(fs), fresh: fresh}
		walkers[fs] = w
		return w
	}

	// fields of merge that only ever hold fresh or self-derived storage
	st, _ := tMerge.Underlying().(*types.Struct)
	if st == nil {
		c.Missing(r3, "ixbuf.merge is a struct")
		return
	}
	mergeFields := map[*types.Var]bool{}
	for i := 0; i < st.NumFields(); i++ {
		mergeFields[st.Field(i)] = true
	}
	type fieldDef struct {
		fs  *FuncSrc
		rhs ast.Expr
		at  ast.Node
	}
	fdefs := map[*types.Var][]fieldDef{}
	for _, fs := range p.FuncsIn(pk) {
		info := fs.Info()
		ForEachNode(fs, func(n ast.Node) {
			switch s := n.(type) {
			case *ast.AssignStmt:
				for i, l := range s.Lhs {
					f := FieldOf(info, l)
					if f == nil || !mergeFields[f] {
						continue
					}
					if len(s.Lhs) == len(s.Rhs) {
						fdefs[f] = append(fdefs[f], fieldDef{fs, s.Rhs[i], s})
					} else {
						fdefs[f] = append(fdefs[f], fieldDef{fs, s.Rhs[0], s})
					}
				}
			case *ast.CompositeLit:
				if t := info.TypeOf(s); t == nil || !isNamed(t, tMerge) {
					return
				}
				for i, el := range s.Elts {
					if kv, ok := el.(*ast.KeyValueExpr); ok {
						if id, ok := kv.Key.(*ast.Ident); ok {
							if f, ok := info.Uses[id].(*types.Var); ok && mergeFields[f] {
								fdefs[f] = append(fdefs[f], fieldDef{fs, kv.Value, kv})
							}
						}
					} else if i < st.NumFields() {
						fdefs[st.Field(i)] = append(fdefs[st.Field(i)], fieldDef{fs, el, el})
					}
				}
			}
		})
	}
	private := map[*types.Var]bool{}
	whyNot := map[*types.Var]string{}
	for f := range mergeFields {
		if !isInputMem(f.Type()) {
			continue
		}
		ok := true
		for _, d := range fdefs[f] {
			for _, r := range walker(d.fs).roots(d.rhs) {
				switch {
				case r.Kind == "fresh" || r.Kind == "nil":
				case r.Kind == "field" && r.Field == f:
				default:
					ok = false
					whyNot[f] = fmt.Sprintf("%s assigns it from %s (%s) at %s", d.fs.name, exprStr(r.Expr), r.Kind, p.Pos(d.at))
				}
			}
		}
		private[f] = ok
	}

	// judge decides whether the storage named by e (in fs) is the merge's own
	type paramReq struct {
		fs  *FuncSrc
		obj types.Object
		at  ast.Node
	}
	var judge func(fs *FuncSrc, e ast.Expr, depth int) (bool, string, []paramReq)
	judge = func(fs *FuncSrc, e ast.Expr, depth int) (bool, string, []paramReq) {
		var reqs []paramReq
		for _, r := range walker(fs).roots(e) {
			switch r.Kind {
			case "fresh", "nil":
			case "field":
				if mergeFields[r.Field] {
					if !private[r.Field] {
						return false, fmt.Sprintf("merge.%s may alias an input: %s", r.Field.Name(), whyNot[r.Field]), nil
					}
					continue
				}
				return false, fmt.Sprintf("%s is a field of an input buffer", exprStr(r.Expr)), nil
			case "param":
				reqs = append(reqs, paramReq{fs, r.Obj, e})
			case "elem":
				return false, fmt.Sprintf("%s is an element taken from a list of chunks (input chunks are passed through by reference)", exprStr(r.Expr)), nil
			default:
				return false, fmt.Sprintf("%s (%s) is not known to be the merge's own storage", exprStr(r.Expr), r.Kind), nil
			}
		}
		return true, "", reqs
	}
	paramIndex := func(fs *FuncSrc, obj types.Object) int {
		sig := fs.Obj.Type().(*types.Signature)
		if sig.Recv() != nil && types.Object(sig.Recv()) == obj {
			return -1
		}
		for i := 0; i < sig.Params().Len(); i++ {
			if types.Object(sig.Params().At(i)) == obj {
				return i
			}
		}
		return -2
	}
	var checkReq func(rq paramReq, depth int) (bool, string)
	checkReq = func(rq paramReq, depth int) (bool, string) {
		if rq.fs.Obj == nil {
			return false, "store through a parameter of a function literal"
		}
		if depth > 3 {
			return false, "parameter chain too deep to follow"
		}
		idx := paramIndex(rq.fs, rq.obj)
		if idx == -2 {
			return false, "store through a result variable"
		}
		if rq.fs == mergeFn || rq.fs.Obj.Exported() {
			return false, fmt.Sprintf("parameter %s of exported %s comes from the caller (an input)", rq.obj.Name(), rq.fs.name)
		}
		for _, cs := range p.CallersOf(rq.fs.Obj) {
			if cs.Call == nil {
				return false, rq.fs.name + " is used as a value in " + cs.Fn.name
			}
			var arg ast.Expr
			if idx == -1 {
				if sel, ok := ast.Unparen(cs.Call.Fun).(*ast.SelectorExpr); ok {
					arg = sel.X
				}
			} else {
				arg = callArg(cs.Call, idx)
			}
			if arg == nil {
				return false, "argument not found at " + p.Pos(cs.Call)
			}
			ok, why, reqs := judge(cs.In, arg, depth)
			if !ok {
				return false, fmt.Sprintf("called from %s with %s: %s", cs.Fn.name, exprStr(arg), why)
			}
			for _, r2 := range reqs {
				if ok, why := checkReq(r2, depth+1); !ok {
					return false, why
				}
			}
		}
		return true, ""
	}

	nStores := 0
	for _, fs := range fns {
		info := fs.Info()
		var bad []string
		var badPos ast.Node
		n := 0
		ForEachNode(fs, func(nd ast.Node) {
			for _, b := range storeTargets(info, nd) {
				if !isInputMem(info.TypeOf(b)) {
					continue
				}
				// a plain `x = append(x, …)` style re-slicing of a local is judged by its target too
				n++
				ok, why, reqs := judge(fs, b, 0)
				for _, rq := range reqs {
					if !ok {
						break
					}
					ok, why = checkReq(rq, 0)
				}
				if !ok {
					bad = append(bad, fmt.Sprintf("%s writes through %s: %s", p.Pos(nd), exprStr(b), why))
					if badPos == nil {
						badPos = nd
					}
				}
			}
		})
		nStores += n
		if n == 0 {
			continue
		}
		pos := p.Pos(fs.Decl)
		if badPos != nil {
			pos = p.Pos(badPos)
		}
		c.Obl(r3, fs.name+": stores into chunk / slot memory go to the merge's own storage", pos, len(bad) == 0, unless(len(bad) == 0,
			"the merged buffers are shared with running transactions and with the previous state; writing into them changes what concurrent readers and a later retry see: "+strings.Join(bad, "; ")))
	}
	c.Stats["merge_store_sites"] = nStores
	c.Floor(r3, nStores, 8, "stores into chunk/slot memory in the merge code")
	var names []string
	for f, ok := range private {
		if ok {
			names = append(names, f.Name())
		}
	}
	sort.Strings(names)
	c.Floor(r3, len(private), 2, "fields of merge that hold chunk / slot memory (buf, out)")
	c.Note("C11.3: fields of merge holding only fresh/self-derived storage: %v; %d functions in scope; %d store sites", names, len(fns), nStores)
}

package main

// C21.6: after index positions shift (alter drop), every foreign-key link of every remaining
// index is renumbered, in both directions.  Added after seeded change C21-2.

import (
	"go/ast"
	"go/token"
	"go/types"
)

func checkFkRenumberCoversAllLinks(c *Ctx, rule string) {
	p := c.P
	fs := c.function(rule, "db19/meta", "updateFkeysIIndex")
	toHere := p.Func("db19/meta", "updateOtherFkToHere")
	other := p.Func("db19/meta", "updateOtherFk")
	tableF := p.Field("db19/meta/schema", "Fkey", "Table")
	indexesF := p.Field("db19/meta/schema", "Schema", "Indexes")
	if fs == nil || !c.need(rule, "meta.updateOtherFkToHere", toHere) || !c.need(rule, "meta.updateOtherFk", other) ||
		!c.need(rule, "schema.Fkey.Table", tableF) || !c.need(rule, "schema.Schema.Indexes", indexesF) {
		return
	}
	info := fs.Info()
	// the loop over the schema's own indexes and its position variable
	var loop *ast.RangeStmt
	ast.Inspect(fs.Body, func(n ast.Node) bool {
		if r, ok := n.(*ast.RangeStmt); ok && loop == nil && FieldOf(info, r.X) == indexesF {
			loop = r
		}
		return true
	})
	if loop == nil || identOf(loop.Key) == nil {
		c.Missing(rule, "updateFkeysIIndex: loop over the positions of sch.Indexes")
		return
	}
	posVar := info.Defs[identOf(loop.Key)]
	emptyTableTest := func(e ast.Expr) bool {
		be, ok := ast.Unparen(e).(*ast.BinaryExpr)
		if !ok || (be.Op != token.EQL && be.Op != token.NEQ) {
			return false
		}
		for _, pr := range [][2]ast.Expr{{be.X, be.Y}, {be.Y, be.X}} {
			if FieldOf(info, pr[0]) == tableF {
				if v := ConstVal(info, pr[1]); v != nil && v.ExactString() == `""` {
					return true
				}
			}
		}
		return false
	}
	fl := &Flow{P: p, Node: Labeler(CallOf("toHere", toHere), CallOf("other", other)),
		Edge: func(s *FuncSrc, cond ast.Expr, truth bool) []string { return []string{condLabel(cond, truth)} }}
	res := fl.Analyze(fs)
	for _, ev := range []struct{ label, what string }{{"toHere", "the back link (FkToHere of the target's index)"}, {"other", "the forward link (Fk of the referencing index)"}} {
		sites := res.Of(ev.label)
		c.Floor(rule, len(sites), 1, "renumbering calls for "+ev.what)
		for _, s := range sites {
			call, _ := s.Node.(*ast.CallExpr)
			inLoop := call != nil && call.Pos() >= loop.Body.Pos() && call.End() <= loop.Body.End()
			bad := ""
			if !inLoop {
				bad = "the call is not inside the loop over the schema's indexes"
			}
			for _, f := range condFactsOf(s.Before, nil) {
				if !emptyTableTest(f.Expr) {
					bad = "the call is guarded by " + f.String() + ": links for which it is false keep the old position"
				}
			}
			if call != nil && bad == "" {
				last := call.Args[len(call.Args)-1]
				if id := identOf(last); id == nil || info.Uses[id] != posVar {
					bad = "the position passed is not the loop's position in sch.Indexes"
				}
			}
			c.Obl(rule, "updateFkeysIIndex renumbers "+ev.what+" for every index that has one", p.Pos(s.Node), bad == "", bad)
		}
	}
	// the callers: every Meta operation that removes or reorders indexes calls it
	callers := 0
	for _, cf := range p.FuncsIn("db19/meta") {
		if cf.Body == nil || cf.Obj == fs.Obj {
			continue
		}
		if len(p.CallsIn(cf, fs.Obj)) > 0 {
			callers++
		}
	}
	c.Floor(rule, callers, 1, "callers of updateFkeysIIndex")
	var _ types.Object = posVar
}

#!/usr/bin/env python3
"""Re-anchors line-number addresses in gsv/{mutants,benign}/*/*.mut sed expressions after /repo moved
from BASE to HEAD (fix commits shift lines).  usage: reanchor.py <base commit> [--write]"""
import re, subprocess, sys, glob
base = sys.argv[1]; write = '--write' in sys.argv
def hunks(path):
    out = subprocess.run(['git','-C','/repo','diff','-U0',base,'HEAD','--',path],capture_output=True,text=True).stdout
    hs=[]
    for m in re.finditer(r'^@@ -(\d+)(?:,(\d+))? \+(\d+)(?:,(\d+))? @@', out, re.M):
        os_, ol, ns, nl = int(m.group(1)), int(m.group(2) or 1), int(m.group(3)), int(m.group(4) or 1)
        hs.append((os_, ol, ns, nl))
    return hs
def mapline(hs, L):
    delta = 0
    for os_, ol, ns, nl in hs:
        if ol == 0:  # pure insertion after line os_
            if L > os_: delta += nl
            continue
        if L < os_: break
        if os_ <= L < os_ + ol:
            return None  # inside a changed region
        delta += nl - ol
    return L + delta
changed = 0
for f in sorted(glob.glob('/verif/gsv/mutants/*/*.mut') + glob.glob('/verif/gsv/benign/*/*.mut')):
    lines = open(f).read().split('\n')
    path = None
    for l in lines:
        if l.startswith('file:'): path = l[5:].strip()
    if not path: continue
    hs = hunks(path)
    if not hs: continue
    new = []
    mod = False
    for l in lines:
        if not l.startswith('sed:'):
            new.append(l); continue
        expr = l[4:].strip()
        def rep(m):
            global mod
            a = int(m.group(2)); b = m.group(4)
            na = mapline(hs, a)
            if na is None: return m.group(0)
            s = m.group(1) + str(na)
            if b:
                nb = mapline(hs, int(b))
                if nb is None: return m.group(0)
                s += ',' + str(nb)
            if s != m.group(0): mod = True
            return s
        # an address is a number at the start of the script or after ';' or '{' , followed by a command letter
        expr2 = re.sub(r'(^|;\s*|\{\s*)(\d+)(,(\d+))?(?=\s*[sdicaypq{!])', rep, expr)
        new.append('sed: ' + expr2)
    if mod:
        changed += 1
        print('reanchored', f.replace('/verif/gsv/',''))
        if write: open(f,'w').write('\n'.join(new))
print(changed, 'files', '(written)' if write else '(dry run)')

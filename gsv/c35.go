package main

// C35 record rules: every string-keyed change of a SuRecord invalidates the dependents
// of the key and then calls the observers; invalidate marks, records and recurses; the
// read path consults the invalid marks and records dependencies.

import (
	"fmt"
	"go/ast"
	"go/types"
	"sort"
)

func init() { register("C35", checkC35, "./core") }

// c35Exceptions: functions that change r.ob without invalidation/observers, each confirmed by reading.
var c35Exceptions = map[string]string{
	"core.(*SuRecord).PreSet":     "the documented way to set a member without triggering rules/observers: it goes through SuObject.Set only",
	"core.(*SuRecord).Clear":      "discards the whole record state (r.suRec = suRec{}): dependents, invalid marks and observers go with the data",
	"core.(*SuRecord).DeleteAll":  "removes every member at once (and the row); all cached rule values disappear with it, no per-key notification by design",
	"core.(*SuRecord).toObject":   "copies row values into the object only for keys the object lacks: no field changes its visible value",
	"core.(*SuRecord).getFromRow": "caches the unpacked row value of a key the object lacks: the visible value does not change",
	"core.(*SuRecord).callRule":   "stores the value just computed by the key's own rule; its dependents were invalidated transitively when the key was invalidated",
	"core.(*SuRecord).ToRecord":   "stores the fresh _TS timestamp with ob.set on purpose (source: 'NOTE: ob.set') while the record is being written to the database",
}

func checkC35(c *Ctx) string {
	p := c.P
	r0 := "C35.0 anchors"
	r1 := "C35.1 K5 every string-keyed change of a record invalidates the key's dependents and calls the observers"
	r2 := "C35.2 K5 invalidate marks the field, queues it for the observers and recurses into its dependents"
	r3 := "C35.3 K4 the read path recomputes invalid fields and records which fields a rule used"
	recT := p.NamedType("core", "SuRecord")
	obF := p.Field("core", "SuRecord", "ob")
	invalidF := p.Field("core", "suRec", "invalid")
	invalidatedF := p.Field("core", "suRec", "invalidated")
	dependentsF := p.Field("core", "suRec", "dependents")
	invDeps := p.DeclaredMethod("core", "SuRecord", "invalidateDependents")
	invalidate := p.DeclaredMethod("core", "SuRecord", "invalidate")
	callObs := p.DeclaredMethod("core", "SuRecord", "callObservers")
	callObs2 := p.DeclaredMethod("core", "SuRecord", "callObservers2")
	same := p.DeclaredMethod("core", "SuRecord", "same")
	callRule := p.DeclaredMethod("core", "SuRecord", "callRule")
	addDep := p.DeclaredMethod("core", "SuRecord", "addDependent")
	top := p.DeclaredMethod("core", "activeRules", "top")
	toStr := p.IfaceMethod("core", "Value", "ToStr")
	ok := c.need(r0, "core.SuRecord", recT) && c.need(r0, "core.SuRecord.ob", obF) && c.need(r0, "core.suRec.invalid", invalidF) &&
		c.need(r0, "core.suRec.invalidated", invalidatedF) && c.need(r0, "core.suRec.dependents", dependentsF) &&
		c.need(r0, "core.SuRecord.invalidateDependents", invDeps) && c.need(r0, "core.SuRecord.invalidate", invalidate) &&
		c.need(r0, "core.SuRecord.callObservers", callObs) && c.need(r0, "core.SuRecord.callObservers2", callObs2) && c.need(r0, "core.SuRecord.same", same) &&
		c.need(r0, "core.SuRecord.callRule", callRule) && c.need(r0, "core.SuRecord.addDependent", addDep) &&
		c.need(r0, "core.activeRules.top", top) && c.need(r0, "core.Value.ToStr", toStr)
	if !ok {
		return "anchors missing"
	}
	mutNames := []string{"set", "delete", "erase", "deleteAll", "Set", "Put", "Delete", "Erase", "DeleteAll", "GetPut", "CompareAndSet"}
	var muts []*types.Func
	for _, n := range mutNames {
		f := p.DeclaredMethod("core", "SuObject", n)
		if !c.need(r0, "core.SuObject."+n, f) {
			return "anchors missing"
		}
		muts = append(muts, f)
	}
	isMut := func(f *types.Func) bool {
		for _, m := range muts {
			if sameFunc(f, m) {
				return true
			}
		}
		return false
	}
	// selOnRecOb: e is X.ob.m with ob the SuRecord field and m a keyed mutator of SuObject
	selOnRecOb := func(info *types.Info, e ast.Expr) *types.Func {
		sel, ok := ast.Unparen(e).(*ast.SelectorExpr)
		if !ok || FieldOf(info, sel.X) != obF {
			return nil
		}
		f, _ := ObjOf(info, sel).(*types.Func)
		if f != nil && isMut(f.Origin()) {
			return f.Origin()
		}
		return nil
	}

	// ---- discover the functions that change a record's object
	type changer struct {
		fs      *FuncSrc
		direct  []*ast.CallExpr     // X.ob.m(key, …)
		viaFunc map[*types.Var]bool // func-typed parameters that receive X.ob.m as a method value
	}
	changers := map[*FuncSrc]*changer{}
	get := func(fs *FuncSrc) *changer {
		if changers[fs] == nil {
			changers[fs] = &changer{fs: fs, viaFunc: map[*types.Var]bool{}}
		}
		return changers[fs]
	}
	nsites := 0
	for _, fs := range p.FuncsIn("core") {
		if fs.Body == nil {
			continue
		}
		info := fs.Info()
		inCall := map[ast.Expr]bool{}
		ForEachNode(fs, func(n ast.Node) {
			call, ok := n.(*ast.CallExpr)
			if !ok {
				return
			}
			if m := selOnRecOb(info, call.Fun); m != nil {
				inCall[ast.Unparen(call.Fun)] = true
				nsites++
				get(fs).direct = append(get(fs).direct, call)
			}
			// method value passed to a function with source: the callee's parameter performs the change
			for i, a := range call.Args {
				if m := selOnRecOb(info, a); m != nil {
					inCall[ast.Unparen(a)] = true
					nsites++
					callee := Callee(info, call)
					cs := p.Src(callee)
					if cs == nil || cs.Param(i) == nil {
						c.Obl(r1, fs.name+": method value "+exprStr(a)+" is passed to a function with source", p.Pos(a), false,
							"a mutator of the record's object escapes as a function value: the change cannot be followed")
						continue
					}
					get(cs).viaFunc[cs.Param(i)] = true
				}
			}
		})
		// any other reference (stored method value)
		ForEachNode(fs, func(n ast.Node) {
			if sel, ok := n.(*ast.SelectorExpr); ok && !inCall[sel] && selOnRecOb(info, sel) != nil {
				c.Obl(r1, fs.name+": mutator "+exprStr(sel)+" of the record's object is called or passed directly", p.Pos(sel), false,
					"a mutator of the record's object escapes as a function value: the change cannot be followed")
			}
		})
	}
	c.Floor(r1, nsites, 10, "calls/method values of keyed SuObject mutators on SuRecord.ob")

	var list []*changer
	for _, ch := range changers {
		list = append(list, ch)
	}
	sort.Slice(list, func(i, j int) bool { return list[i].fs.name < list[j].fs.name })
	nchecked, nexc := 0, 0
	for _, ch := range list {
		fs := ch.fs
		if reason, isExc := c35Exceptions[fs.name]; isExc {
			nexc++
			c.Obl(r1, fs.name+": frozen exception", p.Pos(fs.Decl), true, reason)
			continue
		}
		nchecked++
		info := fs.Info()
		defs := buildDefs(fs)
		direct := map[*ast.CallExpr]bool{}
		for _, d := range ch.direct {
			direct[d] = true
		}
		isChange := func(n ast.Node) bool {
			call, ok := n.(*ast.CallExpr)
			if !ok {
				return false
			}
			if direct[call] {
				return true
			}
			if id, ok := ast.Unparen(call.Fun).(*ast.Ident); ok {
				if v, ok := info.Uses[id].(*types.Var); ok && ch.viaFunc[v] {
					return true
				}
			}
			return false
		}
		// okFromToStr: ident `ok` defined as the second result of <key>.ToStr()
		okFromToStr := func(e ast.Expr) bool {
			id, isId := ast.Unparen(e).(*ast.Ident)
			if !isId {
				return false
			}
			o := info.Uses[id]
			if o == nil || len(defs.defs[o]) != 1 {
				return false
			}
			call, isCall := ast.Unparen(defs.defs[o][0]).(*ast.CallExpr)
			return isCall && sameFunc(Callee(info, call), toStr) && types.Identical(o.Type(), types.Typ[types.Bool])
		}
		fl := &Flow{P: p,
			Node: Labeler(Ev{"changed", func(f *FuncSrc, n ast.Node) bool { return isChange(n) }},
				CallOf("inval", invDeps), CallOf("obs", callObs)),
			Edge: func(f *FuncSrc, cond ast.Expr, truth bool) []string {
				if okFromToStr(cond) {
					if truth {
						return []string{"@str"}
					}
					return []string{"@nonstr"}
				}
				if call, ok := ast.Unparen(cond).(*ast.CallExpr); ok {
					if sameFunc(Callee(info, call), same) && truth {
						return []string{"@same"}
					}
					if isChange(call) && !truth {
						return []string{"@nochange"}
					}
				}
				return nil
			},
			Implies: map[string][]string{"obs": {"done"}, "@same": {"done"}, "@nonstr": {"done"}, "@nochange": {"done"}},
			Depth:   1, // a helper extracted one level (notify := inval + obs) is followed
		}
		res := fl.Analyze(fs)
		nch := len(res.Of("changed"))
		c.Floor(r1, nch, 1, "change events in "+fs.name)
		for _, r := range res.Returns {
			if !r.Before.Has("changed") {
				continue
			}
			c.Obl(r1, fs.name+": a return after a change has notified (or the key is no string / the value is the same / nothing was removed)", p.Pos(r.Node), r.Before.Has("done"),
				"a path changes a string-keyed member and returns without invalidateDependents+callObservers: rules that used the field keep their stale value and observers are not told")
		}
		for _, s := range res.Of("obs") {
			sameCall := false // both come from one extracted helper (its inner order is not checked)
			for _, s2 := range res.Of("inval") {
				if s2.Node == s.Node && !s.Direct && !s2.Direct {
					sameCall = true
				}
			}
			c.Obl(r1, fs.name+": callObservers comes after invalidateDependents", p.Pos(s.Node), s.Before.Has("inval") || sameCall,
				"observers run (and may read rule fields) before the dependents of the changed key are marked invalid")
		}
		for _, s := range res.Of("inval") {
			c.Obl(r1, fs.name+": invalidateDependents comes after the change", p.Pos(s.Node), s.Before.Has("changed"), "")
		}
		c.Floor(r1, len(res.Of("obs")), 1, "callObservers calls in "+fs.name)
		c.Floor(r1, len(res.Of("inval")), 1, "invalidateDependents calls in "+fs.name)
		// same key: the string passed on derives from the key of the change
		var keyObjs []types.Object
		for _, s := range res.Of("changed") {
			call := s.Node.(*ast.CallExpr)
			if len(call.Args) > 0 {
				if ri := rootIdent(call.Args[0]); ri != nil {
					keyObjs = append(keyObjs, info.Uses[ri])
				}
			}
		}
		for _, s := range append(res.Of("inval"), res.Of("obs")...) {
			call := s.Node.(*ast.CallExpr)
			if !s.Direct || len(call.Args) == 0 {
				continue
			}
			arg := call.Args[len(call.Args)-1]
			okKey := false
			for _, k := range keyObjs {
				if k != nil && defs.MentionsObj(info, arg, k) {
					okKey = true
				}
			}
			c.Obl(r1, fs.name+": "+s.Label+" is given the key that was changed", p.Pos(call), okKey,
				"the dependents/observers of another key are notified")
		}
	}
	c.Floor(r1, nchecked, 2, "functions that change a record member under the rule (put, delete)")
	c.Obl(r1, "frozen exceptions are all still change sites", "", nexc == len(c35Exceptions),
		fmt.Sprintf("%d of the %d frozen exceptions still change SuRecord.ob: remove the stale ones", nexc, len(c35Exceptions)))

	// ------------------------------------------------------------ 2. invalidate
	if fs := c.src(r2, invalidate, "core.SuRecord.invalidate"); fs != nil {
		keyP := fs.Param(0)
		info := fs.Info()
		idxByKey := func(e ast.Expr, fld *types.Var) bool {
			ix, ok := ast.Unparen(e).(*ast.IndexExpr)
			if !ok || FieldOf(info, ix.X) != fld {
				return false
			}
			id, ok := ast.Unparen(ix.Index).(*ast.Ident)
			return ok && info.Uses[id] == types.Object(keyP)
		}
		argIsKey := func(call *ast.CallExpr) bool {
			if len(call.Args) != 1 {
				return false
			}
			id, ok := ast.Unparen(call.Args[0]).(*ast.Ident)
			return ok && info.Uses[id] == types.Object(keyP)
		}
		fl := &Flow{P: p, Node: Labeler(
			Ev{"mark", func(f *FuncSrc, n ast.Node) bool {
				as, ok := n.(*ast.AssignStmt)
				if !ok || len(as.Lhs) != 1 || len(as.Rhs) != 1 || !idxByKey(as.Lhs[0], invalidF) {
					return false
				}
				v := ConstVal(info, as.Rhs[0])
				return v != nil && v.String() == "true"
			}},
			Ev{"queue", func(f *FuncSrc, n ast.Node) bool {
				call, ok := n.(*ast.CallExpr)
				return ok && MethodOnField("", invalidatedF, "Add").Match(f, n) && argIsKey(call)
			}},
			Ev{"recurse", func(f *FuncSrc, n ast.Node) bool {
				call, ok := n.(*ast.CallExpr)
				return ok && sameFunc(Callee(info, call), invDeps) && argIsKey(call)
			}}),
			Edge: func(f *FuncSrc, cond ast.Expr, truth bool) []string {
				if idxByKey(cond, invalidF) && truth {
					return []string{"@already"}
				}
				return nil
			},
			Implies: map[string][]string{"mark": {"ok:mark"}, "queue": {"ok:queue"}, "recurse": {"ok:recurse"}, "@already": {"ok:mark", "ok:queue", "ok:recurse"}}}
		res := fl.Analyze(fs)
		for _, r := range res.Returns {
			for _, l := range []struct{ l, what, why string }{
				{"ok:mark", "marks invalid[key] = true", "the field is not recomputed on its next access"},
				{"ok:queue", "queues the key in invalidated", "observers are not called for the invalidated field"},
				{"ok:recurse", "recurses into invalidateDependents(key)", "fields that depend on this rule field through a chain keep their stale value"}} {
				c.Obl(r2, "invalidate "+l.what+" on every path (except when already invalid)", p.Pos(r.Node), r.Before.Has(l.l), l.why)
			}
		}
		c.Floor(r2, len(res.Returns), 2, "returns of invalidate")
	}
	if fs := c.src(r2, invDeps, "core.SuRecord.invalidateDependents"); fs != nil {
		info := fs.Info()
		keyP := fs.Param(0)
		par := parentMap(fs.Body)
		n := 0
		for _, call := range p.CallsIn(fs, invalidate) {
			n++
			okLoop := false
			for pn := par[call]; pn != nil; pn = par[pn] {
				rs, isRange := pn.(*ast.RangeStmt)
				if !isRange {
					continue
				}
				ix, isIx := ast.Unparen(rs.X).(*ast.IndexExpr)
				if !isIx || FieldOf(info, ix.X) != dependentsF {
					continue
				}
				kid, _ := ast.Unparen(ix.Index).(*ast.Ident)
				vid, _ := rs.Value.(*ast.Ident)
				aid, _ := ast.Unparen(callArg(call, 0)).(*ast.Ident)
				if kid != nil && vid != nil && aid != nil && info.Uses[kid] == types.Object(keyP) && info.Uses[aid] == info.Defs[vid] {
					okLoop = true
				}
			}
			c.Obl(r2, "invalidateDependents invalidates every element of dependents[key]", p.Pos(call), okLoop,
				"the call of invalidate is not `for _, d := range r.dependents[key] { r.invalidate(d) }`: some dependent rule fields are not invalidated")
		}
		c.Floor(r2, n, 1, "calls of invalidate in invalidateDependents")
	}
	// Invalidate (exported): invalidate then callObservers
	if fs := c.method(r2, "core", "SuRecord", "Invalidate"); fs != nil {
		fl := &Flow{P: p, Node: Labeler(CallOf("invalidate", invalidate), CallOf("obs", callObs))}
		res := fl.Analyze(fs)
		c.RequireBefore(r2, res, "obs", 1, "invalidate")
		for _, r := range res.Returns {
			c.Obl(r2, "Invalidate calls the observers on every path", p.Pos(r.Node), r.Before.Has("obs"), "an explicit Invalidate marks the field but observers are not told")
		}
	}
	// callObservers drains the queue
	if fs := c.src(r2, callObs, "core.SuRecord.callObservers"); fs != nil {
		info := fs.Info()
		defs := buildDefs(fs)
		par := parentMap(fs.Body)
		takeEv := MethodOnField("", invalidatedF, "Take")
		emptyEv := MethodOnField("", invalidatedF, "Empty")
		drained := false
		for _, call := range p.CallsIn(fs, callObs2) {
			if len(call.Args) < 2 || !defs.MentionsEv(fs, call.Args[len(call.Args)-1], takeEv) {
				continue
			}
			for pn := par[call]; pn != nil; pn = par[pn] {
				if loop, ok := pn.(*ast.ForStmt); ok && loop.Cond != nil && defs.MentionsEv(fs, loop.Cond, emptyEv) {
					drained = true
				}
			}
		}
		_ = info
		c.Obl(r2, "callObservers calls the observers for every queued invalidated key (loop until the queue is empty)", p.Pos(fs.Decl), drained,
			"keys queued by invalidate are never handed to the observers")
		first := false
		for _, call := range p.CallsIn(fs, callObs2) {
			if id, ok := ast.Unparen(call.Args[len(call.Args)-1]).(*ast.Ident); ok && info.Uses[id] == types.Object(fs.Param(1)) {
				first = true
			}
		}
		c.Obl(r2, "callObservers calls the observers for the changed key itself", p.Pos(fs.Decl), first, "")
	}

	// ------------------------------------------------------------ 3. read path
	n := 0
	for _, cs := range p.CallersOf(callRule) {
		if cs.Call == nil {
			continue
		}
		fs := cs.Fn
		n++
		defs := buildDefs(fs)
		par := parentMap(fs.Body)
		guarded := false
		for pn := par[cs.Call]; pn != nil; pn = par[pn] {
			if is, ok := pn.(*ast.IfStmt); ok && defs.MentionsEv(fs, is.Cond, UseOfField("", invalidF)) {
				guarded = true
			}
		}
		c.Obl(r3, fs.name+": the rule is (re)run when the field is marked invalid", p.Pos(cs.Call), guarded,
			"the condition that leads to callRule does not consult r.invalid: an invalidated rule field keeps returning its cached value")
	}
	c.Floor(r3, n, 3, "call sites of callRule")
	n = 0
	for _, cs := range p.CallersOf(addDep) {
		if cs.Call == nil || len(cs.Call.Args) != 2 {
			continue
		}
		fs := cs.Fn
		if len(p.CallsIn(fs, top)) == 0 {
			continue // SetDeps: explicit dependency list, not the tracking path
		}
		n++
		defs := buildDefs(fs)
		fromOK := defs.MentionsEv(fs, cs.Call.Args[0], CallOf("", top))
		toOK := false
		sig := fs.Obj.Type().(*types.Signature)
		for i := 0; i < sig.Params().Len(); i++ {
			pt := sig.Params().At(i)
			if pt.Name() != "th" && defs.MentionsObj(fs.Info(), cs.Call.Args[1], pt) {
				toOK = true
			}
		}
		toOK = toOK && !defs.MentionsEv(fs, cs.Call.Args[1], CallOf("", top))
		c.Obl(r3, fs.name+": addDependent(active rule's key, accessed key)", p.Pos(cs.Call), fromOK && toOK,
			"the dependency is recorded in the wrong direction (or not from the active rule): changing the field does not invalidate the rule that used it")
	}
	c.Floor(r3, n, 2, "dependency-tracking calls of addDependent (getIfPresent, deps)")
	if fs := c.src(r3, addDep, "core.SuRecord.addDependent"); fs != nil {
		info := fs.Info()
		from, to := fs.Param(0), fs.Param(1)
		found := false
		ForEachNode(fs, func(nd ast.Node) {
			as, ok := nd.(*ast.AssignStmt)
			if !ok || len(as.Lhs) != 1 || len(as.Rhs) != 1 {
				return
			}
			ix, ok := ast.Unparen(as.Lhs[0]).(*ast.IndexExpr)
			if !ok || FieldOf(info, ix.X) != dependentsF {
				return
			}
			id, _ := ast.Unparen(ix.Index).(*ast.Ident)
			if id == nil || info.Uses[id] != types.Object(to) {
				return
			}
			uses := false
			ast.Inspect(as.Rhs[0], func(m ast.Node) bool {
				if i2, ok := m.(*ast.Ident); ok && info.Uses[i2] == types.Object(from) {
					uses = true
				}
				return true
			})
			if uses {
				found = true
			}
		})
		c.Obl(r3, "addDependent(from, to) stores from under dependents[to]", p.Pos(fs.Decl), found,
			"invalidateDependents(key) walks dependents[key]: the rule (from) must be filed under the field it used (to)")
	}

	checkRecordCopyKeepsRuleState(c, "C35.4 K9 a copied record keeps its rule state")
	checkDependencyRecordedRegardlessOfResult(c, "C35.5 K4c dependencies are recorded for missing fields too")
	checkInvalidMarkSurvivesThrow(c, "C35.9 K5 a rule that throws leaves its field invalid")
	checkRuleBookkeeping(c, "C35.6 K5 the active-rule entry is popped by a deferred call", "C35.7 K4 dependencies are loaded before the row is dropped", "C35.8 K9 a running rule is identified by record and field")
	return "Static shape of record rules: every function of package core that calls (or passes as a method value) a keyed mutator of SuObject on a SuRecord's object is either one of 7 frozen exceptions (PreSet, Clear, DeleteAll, " +
		"toObject, getFromRow, callRule, ToRecord — reasons in c35.go) or satisfies: every return after the change has called callObservers after invalidateDependents with the changed key, unless the key is not a string, the " +
		"same-value test held, or the mutator reported that nothing was removed; invalidate marks invalid[key], queues the key and recurses on every path except 'already invalid'; invalidateDependents covers every element of dependents[key]; " +
		"Invalidate and callObservers reach the observers (the queue is drained); every call of callRule is guarded by a condition that consults r.invalid; the tracking calls of addDependent pass (active rule key, accessed key) and " +
		"addDependent files from under dependents[to]. Not decided: the rule evaluation itself (catchRule), observers' re-entrancy, dependency persistence (_deps fields)."
}

package main

// C39.3 – C39.6: structural clauses for the small utilities (lrucache, cache, roaring) and the
// routing of inserts in ranges / ordset.  Added after the fourth round of seeded changes.

import (
	"fmt"
	"go/ast"
	"go/constant"
	"go/token"
	"go/types"
)

// checkLruCapacityFitsIndex (C39.3): every capacity lrucache.New can choose is representable
// by the element type of the index slices (Cache.lru, the value type of the hash map).
func checkLruCapacityFitsIndex(c *Ctx, rule string) {
	p := c.P
	fs := c.function(rule, "util/lrucache", "New")
	lruF := p.Field("util/lrucache", "Cache", "lru")
	sizeF := p.Field("util/lrucache", "Cache", "size")
	if fs == nil || !c.need(rule, "lrucache.Cache.lru", lruF) || !c.need(rule, "lrucache.Cache.size", sizeF) {
		return
	}
	bits := 0
	if sl, ok := lruF.Type().Underlying().(*types.Slice); ok {
		if b, ok := sl.Elem().Underlying().(*types.Basic); ok {
			switch b.Kind() {
			case types.Uint8:
				bits = 8
			case types.Uint16:
				bits = 16
			case types.Uint32:
				bits = 32
			}
		}
	}
	if bits == 0 {
		c.Missing(rule, "lrucache.Cache.lru is a slice of an unsigned integer type")
		return
	}
	limit := int64(1) << bits
	info := fs.Info()
	// every integer constant that can flow into Cache.size: the definitions of the variable stored
	// into the size field, through locals and range-over-literal
	var sizeExpr ast.Expr
	ast.Inspect(fs.Body, func(nd ast.Node) bool {
		if kv, ok := nd.(*ast.KeyValueExpr); ok {
			if id := identOf(kv.Key); id != nil && info.Uses[id] == types.Object(sizeF) {
				sizeExpr = kv.Value
			}
		}
		return true
	})
	if sizeExpr == nil {
		c.Missing(rule, "lrucache.New: the literal that sets Cache.size")
		return
	}
	defs := buildDefs(fs)
	var consts []int64
	unknown := ""
	seen := map[types.Object]bool{}
	var walk func(e ast.Expr)
	walk = func(e ast.Expr) {
		e = ast.Unparen(e)
		if v := ConstVal(info, e); v != nil && v.Kind() == constant.Int {
			k, _ := constant.Int64Val(v)
			consts = append(consts, k)
			return
		}
		switch x := e.(type) {
		case *ast.Ident:
			o := info.ObjectOf(x)
			if seen[o] {
				return
			}
			seen[o] = true
			ds := defs.defs[o]
			if len(ds) == 0 {
				unknown = x.Name + " (no local definition: a parameter or global)"
			}
			for _, d := range ds {
				walk(d)
			}
		case *ast.CompositeLit:
			for _, el := range x.Elts {
				walk(el)
			}
		default:
			unknown = exprStr(e)
		}
	}
	walk(sizeExpr)
	var bad []int64
	for _, k := range consts {
		if k > limit || k <= 0 {
			bad = append(bad, k)
		}
	}
	c.Obl(rule, "lrucache.New: every capacity it can choose fits the index type of Cache.lru", p.Pos(fs.Decl), unknown == "" && len(bad) == 0 && len(consts) >= 2,
		fmt.Sprintf("capacities %v exceed the %d values of the index type (entry numbers wrap around and Get returns another key's value); not a constant: %q", bad, limit, unknown))
}

// checkCacheHitNeedsUsedSlot (C39.4): util/cache returns a stored value only from a slot that
// was filled (a zero-valued key must not match an empty slot), and filling a slot marks it.
func checkCacheHitNeedsUsedSlot(c *Ctx, rule string) {
	p := c.P
	fs := c.method(rule, "util/cache", "Cache", "Get")
	keyF := p.Field("util/cache", "Cache", "key")
	valF := p.Field("util/cache", "Cache", "val")
	usedF := p.Field("util/cache", "Cache", "used")
	if fs == nil || !c.need(rule, "cache.Cache.key", keyF) || !c.need(rule, "cache.Cache.val", valF) || !c.need(rule, "cache.Cache.used", usedF) {
		return
	}
	info := fs.Info()
	isOrigin := func(v, f *types.Var) bool { return v != nil && (v == f || v.Origin() == f) }
	mentionsUsed := func(e ast.Expr) bool {
		found := false
		ast.Inspect(e, func(nd ast.Node) bool {
			if x, ok := nd.(ast.Expr); ok && isOrigin(FieldOf(info, x), usedF) {
				found = true
			}
			return true
		})
		return found
	}
	storeTo := func(f *types.Var) Ev {
		return Ev{"store:" + f.Name(), func(_ *FuncSrc, nd ast.Node) bool {
			as, ok := nd.(*ast.AssignStmt)
			if !ok {
				return false
			}
			for _, l := range as.Lhs {
				if ix, ok := ast.Unparen(l).(*ast.IndexExpr); ok && isOrigin(FieldOf(info, ix.X), f) {
					return true
				}
			}
			return false
		}}
	}
	fl := &Flow{P: p, Node: Labeler(storeTo(keyF), storeTo(valF), storeTo(usedF)),
		Edge: func(_ *FuncSrc, cond ast.Expr, truth bool) []string {
			if truth && mentionsUsed(cond) {
				if ix, ok := ast.Unparen(cond).(*ast.IndexExpr); ok && isOrigin(FieldOf(info, ix.X), usedF) {
					return []string{"@slot-used"}
				}
			}
			return nil
		}}
	res := fl.Analyze(fs)
	n := 0
	for _, r := range res.Returns {
		if len(r.Node.Results) != 1 {
			continue
		}
		ix, ok := ast.Unparen(r.Node.Results[0]).(*ast.IndexExpr)
		if !ok || !isOrigin(FieldOf(info, ix.X), valF) {
			continue
		}
		n++
		c.Obl(rule, "cache.Get returns a stored value only from a slot that was filled", p.Pos(r.Node), r.Before.Has("@slot-used"),
			"a hit is decided by the key alone: in a cache that is not full the zero-valued key (\"\", 0) matches an empty slot and the zero value is returned without calling the getter")
	}
	c.Floor(rule, n, 1, "hit returns of cache.Get")
	nk := 0
	for _, s := range res.Of("store:key") {
		nk++
		c.Obl(rule, "cache.Get marks the slot it fills", p.Pos(s.Node), s.Follows("store:used") || s.Before.Has("store:used"),
			"a slot is filled without being marked used: the value is never found again")
	}
	c.Floor(rule, nk, 1, "slot fills in cache.Get")
}

// checkRecycledBlocksCleared (C39.5): a block taken from a sync.Pool in util/roaring is
// cleared before it is handed out (it becomes a bit set; stale contents are false positives).
func checkRecycledBlocksCleared(c *Ctx, rule string) {
	p := c.P
	n := 0
	for _, fs := range p.FuncsIn("util/roaring") {
		if fs.Body == nil {
			continue
		}
		info := fs.Info()
		isPoolGet := func(nd ast.Node) bool {
			call, ok := nd.(*ast.CallExpr)
			if !ok {
				return false
			}
			cal := Callee(info, call)
			return cal != nil && cal.Name() == "Get" && cal.Pkg() != nil && cal.Pkg().Path() == "sync"
		}
		has := false
		ForEachNode(fs, func(nd ast.Node) {
			if isPoolGet(nd) {
				has = true
			}
		})
		if !has {
			continue
		}
		defs := buildDefs(fs)
		fromPool := func(e ast.Expr) bool { return defs.Mentions(info, e, isPoolGet) }
		clr := Ev{"clear", func(_ *FuncSrc, nd ast.Node) bool {
			call, ok := nd.(*ast.CallExpr)
			return ok && IsBuiltin(info, call, "clear") && len(call.Args) == 1 && fromPool(call.Args[0])
		}}
		fl := &Flow{P: p, Node: Labeler(clr)}
		res := fl.Analyze(fs)
		for _, r := range res.Returns {
			if len(r.Node.Results) != 1 || !fromPool(r.Node.Results[0]) {
				continue
			}
			n++
			c.Obl(rule, fs.name+": a block recycled from the pool is cleared before it is handed out", p.Pos(r.Node), r.Before.Has("clear"),
				"the pooled block still holds the values of its previous use; it becomes a bitmap container whose garbage bits make Has() answer true for values never added")
		}
	}
	c.Floor(rule, n, 1, "returns of recycled blocks in util/roaring")
}

// checkInsertRoutedBySearch (C39.6): in ranges.Insert and ordset.Insert the leaf that receives
// the new entry is always the one the tree search selects for the key: the tree position used
// to pick the leaf is only ever (re)computed by searchBinary(key), never stepped.
func checkInsertRoutedBySearch(c *Ctx, rule string) {
	p := c.P
	n := 0
	for _, spec := range [][3]string{{"util/ranges", "Ranges", "Insert"}, {"util/ordset", "Set", "Insert"}} {
		fs := c.method(rule, spec[0], spec[1], spec[2])
		search := p.DeclaredMethod(spec[0], "treeNode", "searchBinary")
		slotsF := p.Field(spec[0], "treeNode", "slots")
		leafF := p.Field(spec[0], "treeSlot", "leaf")
		if fs == nil || !c.need(rule, spec[0]+".treeNode.searchBinary", search) || !c.need(rule, spec[0]+".treeNode.slots", slotsF) || !c.need(rule, spec[0]+".treeSlot.leaf", leafF) {
			continue
		}
		info := fs.Info()
		sig := fs.Obj.Type().(*types.Signature)
		key := sig.Params().At(0)
		// variables used to index tree.slots when picking a leaf
		idxVars := map[types.Object]bool{}
		ast.Inspect(fs.Body, func(nd ast.Node) bool {
			sel, ok := nd.(*ast.SelectorExpr)
			if !ok || FieldOf(info, sel) != leafF {
				return true
			}
			if ix, ok := ast.Unparen(sel.X).(*ast.IndexExpr); ok && FieldOf(info, ix.X) == slotsF {
				ast.Inspect(ix.Index, func(m ast.Node) bool {
					if id, ok := m.(*ast.Ident); ok {
						if v, ok := info.ObjectOf(id).(*types.Var); ok && !v.IsField() {
							idxVars[v] = true
						}
					}
					return true
				})
			}
			return true
		})
		c.Floor(rule, len(idxVars), 1, "tree positions used to pick the insertion leaf in "+spec[0])
		var bad []string
		isSearch := func(e ast.Expr) bool {
			e = ast.Unparen(e)
			if be, ok := e.(*ast.BinaryExpr); ok && (be.Op == token.SUB || be.Op == token.ADD) && ConstVal(info, be.Y) != nil {
				e = ast.Unparen(be.X)
			}
			call, ok := e.(*ast.CallExpr)
			if !ok || !sameFunc(Callee(info, call), search) || len(call.Args) != 1 {
				return false
			}
			id := identOf(call.Args[0])
			return id != nil && info.ObjectOf(id) == types.Object(key)
		}
		ast.Inspect(fs.Body, func(nd ast.Node) bool {
			switch x := nd.(type) {
			case *ast.AssignStmt:
				for i, l := range x.Lhs {
					id := identOf(l)
					if id == nil || !idxVars[info.ObjectOf(id)] {
						continue
					}
					if x.Tok != token.ASSIGN && x.Tok != token.DEFINE {
						bad = append(bad, p.Pos(x)+": "+id.Name+" "+x.Tok.String())
					} else if len(x.Lhs) == len(x.Rhs) && !isSearch(x.Rhs[i]) {
						bad = append(bad, p.Pos(x)+": "+id.Name+" = "+exprStr(x.Rhs[i]))
					}
				}
			case *ast.IncDecStmt:
				if id := identOf(x.X); id != nil && idxVars[info.ObjectOf(id)] {
					bad = append(bad, p.Pos(x)+": "+id.Name+x.Tok.String())
				}
			}
			return true
		})
		n++
		c.Obl(rule, spec[0]+"."+spec[1]+".Insert: the receiving leaf is the one searchBinary(key) selects", p.Pos(fs.Decl), len(bad) == 0,
			fmt.Sprintf("the tree position is changed other than by searching for the key (%v): the entry lands in a leaf that lookups for it are not routed to", bad))
	}
	c.Floor(rule, n, 2, "Insert methods of the checker's sets")
}
